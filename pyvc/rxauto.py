"""rxauto -- exact automata for what CPython's ``re`` does with a pattern.

Purpose
-------
Decide, for strings of EVERY length, facts about ``re.compile(p).match(s)`` /
``re.fullmatch(p, s)`` for a restricted but useful regex subset: whether there
is a match, where it ends, where each group starts/ends and whether a group
participated.  Anything outside the subset raises :class:`Unsupported`; the
module never guesses.

Semantics assumed (the trusted model)
-------------------------------------
* CPython's ``re`` (3.11) is a *leftmost-first backtracking* matcher: among all
  ways the pattern can match at position 0, the one found first by a
  depth-first search wins (alternation: left branch first; greedy repeat: one
  more iteration before leaving; lazy repeat: leaving first).  ``match`` stops
  at the first success and ignores the rest of the input; ``fullmatch`` keeps
  backtracking until a path ends exactly at the end of the string, so
  ``{s | fullmatch(p, s)}`` is the ordinary regular language of the pattern.
* For patterns without back-references the backtracking search is equivalent
  to a Pike-VM: an ordered list of NFA threads, deduplicated per input
  position (the higher-priority thread wins), where every thread of lower
  priority than a thread that has reached ACCEPT is discarded.  This module
  determinises that ordered thread list.  The equivalence needs loops whose
  body cannot match the empty string (CPython has ad-hoc guards for empty
  iterations); repeats with a nullable body and a maximum > 1 are rejected.
* ``match(s, pos)`` is treated as ``match(s[pos:])``.  That is valid only for
  patterns that do not look at what is left of ``pos`` (``^``, ``\\A``,
  ``\\b``, ``\\B``, look-behind); see :func:`uses_anchors`.
* ``$`` (no MULTILINE) holds at the end of the string and just before a
  trailing ``'\\n'`` that is the last character; ``\\Z`` only at the end;
  ``^`` and ``\\A`` only at position 0.
* Character classes use Python 3 ``str`` (Unicode) semantics; the category
  tables for ``\\d \\s \\w`` are obtained by running CPython's ``re`` itself
  over all 0x110000 code points.

Alphabet
--------
All automata work over an :class:`Alphabet`: a finite partition of the code
points 0..0x10FFFF into classes that no pattern involved in a query
distinguishes, optionally extended by ONE *marker symbol*.  The marker symbol
is not a character: no character set, ``.`` or negated set ever matches it.
It is *written* as ``Alphabet.marker_char`` (default U+2038) in witness words
and in specification regexes; real strings containing that code point are
outside the model while a marker is in use (a pattern under analysis that
mentions it literally is rejected).

Marked languages
----------------
``lang_end_marked`` / ``lang_group_marked`` describe positions by languages
of words with exactly one marker: ``s[:e] + marker + s[e:]``.  They are built
by running the prioritised simulation on marked words; every thread carries a
status for the tag of interest (not crossed / crossed in the closure just
performed / crossed earlier / crossed exactly at the marker).  Thread order,
deduplication and cutting never look at the status, so the marker only
observes.  For a group inside a repeat the LAST crossing counts, as in ``re``.

Public API
----------
``Unsupported`` (and its subclass ``ResourceLimit``), ``Alphabet``, ``Lang``
(``& | - ^ ~``, ``minus``, ``complement``, ``is_empty``, ``shortest_word``,
``accepts``, ``words``, ``with_marker_anywhere``, ``erase_marker``; class
methods ``empty``, ``all_words``, ``unmarked``, ``one_marker``),
``make_alphabet``, ``common_alphabet``, ``from_predicate_classes``,
``compile_prioritized``, ``uses_anchors``, ``anchor_kinds``,
``lang_fullmatch``, ``lang_match``, ``lang_match_then_whole``,
``lang_end_marked``, ``lang_group_marked``, ``lang_group_absent``,
``equivalent``, ``subset``.

Typical use::

    U = make_alphabet([pattern, spec_regex], marker=True)
    got = lang_group_marked(pattern, 'key', 'end', universe=U)
    spec = lang_fullmatch(spec_regex, universe=U)   # marker char = marker
    witness = subset(got, spec)                     # None  <=>  holds for
                                                    # strings of every length

Trust: the Pike-VM/backtracking equivalence is the standard argument for
back-reference-free patterns; it is additionally cross-checked against the
real ``re`` by ``pyvc.test_rxauto`` (exhaustively on short words, randomly on
long ones).  The tables and therefore all results are specific to the Unicode
database of the interpreter that runs this module.

Pure stdlib.  Python 3.11 (uses ``re._parser``).
"""

import re
import sys
from array import array as _array
import re._parser as _sre_parser
import re._constants as _sc
from bisect import bisect_right
from collections import deque
from functools import lru_cache

__all__ = [
    'Unsupported', 'ResourceLimit', 'Alphabet', 'Lang', 'DEFAULT_MARKER',
    'make_alphabet', 'common_alphabet', 'from_predicate_classes',
    'compile_prioritized', 'uses_anchors', 'anchor_kinds',
    'lang_fullmatch', 'lang_match_then_whole', 'lang_match',
    'lang_end_marked', 'lang_group_marked', 'lang_group_absent',
    'equivalent', 'subset',
]

MAXCP = 0x10FFFF
DEFAULT_MARKER = '‸'          # CARET; not \w, \s or \d
MAX_NFA_NODES = 20000
MAX_DFA_STATES = 200000


class Unsupported(Exception):
    """The pattern (or flag) is outside the exactly-modelled subset."""


class ResourceLimit(Unsupported):
    """An automaton grew beyond the configured size limits."""


# --------------------------------------------------------------------------
# range lists: sorted tuples of disjoint, non-adjacent inclusive (lo, hi)
# --------------------------------------------------------------------------

def _norm(ranges):
    rs = sorted((lo, hi) for lo, hi in ranges if lo <= hi)
    out = []
    for lo, hi in rs:
        if out and lo <= out[-1][1] + 1:
            if hi > out[-1][1]:
                out[-1] = (out[-1][0], hi)
        else:
            out.append((lo, hi))
    return tuple(out)


def _neg(ranges):
    out = []
    prev = 0
    for lo, hi in ranges:
        if lo > prev:
            out.append((prev, lo - 1))
        prev = hi + 1
    if prev <= MAXCP:
        out.append((prev, MAXCP))
    return tuple(out)


def _size(ranges):
    return sum(hi - lo + 1 for lo, hi in ranges)


def _has(ranges, c):
    i = bisect_right(ranges, (c, MAXCP + 1)) - 1
    return i >= 0 and ranges[i][0] <= c <= ranges[i][1]


def _without(ranges, c):
    out = []
    for lo, hi in ranges:
        if lo <= c <= hi:
            if lo < c:
                out.append((lo, c - 1))
            if c < hi:
                out.append((c + 1, hi))
        else:
            out.append((lo, hi))
    return tuple(out)


def _points_to_ranges(points):
    pts = sorted(set(points))
    out = []
    for p in pts:
        if out and p == out[-1][1] + 1:
            out[-1][1] = p
        else:
            out.append([p, p])
    return tuple((a, b) for a, b in out)


_category_tables = {}


def _category_ranges(name, ascii_mode):
    """Range list of the code points matched by ``\\d``, ``\\s`` or ``\\w``
    (``name`` in 'dsw'), with or without ``re.ASCII``.

    Computed by CPython's own ``re`` over a string holding every code point
    (alternating ``\\D*`` / ``\\d*`` runs), so it is exact for the running
    interpreter by construction; the self-test re-checks it with one
    ``re.match`` call per code point.  NOTE: the tables depend on the Unicode
    version of the interpreter (3.11.7 / Unicode 14: 660 decimal digits; 3.12.1 /
    Unicode 15: 680)."""
    if not _category_tables:
        allchars = _array('I', range(MAXCP + 1)).tobytes().decode(
            'utf-32-le' if sys.byteorder == 'little' else 'utf-32-be',
            'surrogatepass')                            # index == code point
        assert len(allchars) == MAXCP + 1 and allchars[0x10FFFF] == chr(MAXCP) \
            and allchars[0xD800] == chr(0xD800)
        for nm in 'dsw':
            for am in (False, True):
                fl = re.ASCII if am else 0
                inside = re.compile('\\%s*' % nm, fl).match
                outside = re.compile('\\%s*' % nm.upper(), fl).match
                out, pos = [], 0
                while pos <= MAXCP:
                    pos = outside(allchars, pos).end()
                    end = inside(allchars, pos).end()
                    if end > pos:
                        out.append((pos, end - 1))
                        pos = end
                _category_tables[nm, am] = _norm(out)
    return _category_tables[name, bool(ascii_mode)]


_CATEGORIES = {
    _sc.CATEGORY_DIGIT: ('d', False), _sc.CATEGORY_NOT_DIGIT: ('d', True),
    _sc.CATEGORY_SPACE: ('s', False), _sc.CATEGORY_NOT_SPACE: ('s', True),
    _sc.CATEGORY_WORD: ('w', False), _sc.CATEGORY_NOT_WORD: ('w', True),
}


def _category(cat, ascii_mode):
    if cat not in _CATEGORIES:
        raise Unsupported('category %r' % (cat,))
    name, negated = _CATEGORIES[cat]
    rs = _category_ranges(name, bool(ascii_mode))
    return _neg(rs) if negated else rs


# --------------------------------------------------------------------------
# Alphabet: finite partition of all code points (+ optional marker symbol)
# --------------------------------------------------------------------------

def _pick_representative(ranges):
    """Prefer ASCII alphanumerics, then other printable ASCII, then ' ',
    then a printable non-surrogate, then anything."""
    ascii_pts = [c for lo, hi in ranges if lo <= 0x7E
                 for c in range(max(lo, 0x20), min(hi, 0x7E) + 1)]
    for c in ascii_pts:
        if chr(c).isalnum():
            return chr(c)
    for c in ascii_pts:
        if c != 0x20:
            return chr(c)
    if ascii_pts:
        return ' '
    if len(ranges) == 1 and ranges[0] == (10, 10):
        return '\n'
    tried = 0
    for lo, hi in ranges:
        for c in range(lo, min(hi, lo + 8) + 1):
            tried += 1
            if not 0xD800 <= c <= 0xDFFF and chr(c).isprintable():
                return chr(c)
        if tried > 400:
            break
    for lo, hi in ranges:
        for c in (lo, hi):
            if not 0xD800 <= c <= 0xDFFF:
                return chr(c)
    return chr(ranges[0][0])


class Alphabet:
    """A partition of the code points 0..0x10FFFF into ``nclasses`` classes,
    plus an optional marker symbol (index ``nclasses``).

    ``classes[k]`` is the range list of class ``k``; ``reps[k]`` its
    representative character.  ``'\\n'`` is always a class of its own.  When
    ``marker_char`` is set, that code point is taken out of the character
    universe and denotes the marker symbol instead.

    Two alphabets are equal iff they have the same classes and marker."""

    def __init__(self, sets=(), marker_char=None):
        if marker_char is not None:
            if not (isinstance(marker_char, str) and len(marker_char) == 1):
                raise ValueError('marker must be a single character')
            if marker_char == '\n':
                raise ValueError("marker must not be '\\n'")
        self.marker_char = marker_char
        mcp = ord(marker_char) if marker_char else None
        sets = [_norm(s) for s in sets] + [((10, 10),)]
        if mcp is not None:
            sets = [_without(s, mcp) for s in sets]
            sets.append(((mcp, mcp),))      # isolates the marker code point
        sets = sorted(set(s for s in sets if s))
        cuts = {0, MAXCP + 1}
        for s in sets:
            for lo, hi in s:
                cuts.add(lo)
                cuts.add(hi + 1)
        cuts = sorted(cuts)
        natoms = len(cuts) - 1
        sig = [0] * natoms
        for j, s in enumerate(sets):
            bit = 1 << j
            for lo, hi in s:
                a = bisect_right(cuts, lo) - 1
                b = bisect_right(cuts, hi) - 1
                for i in range(a, b + 1):
                    sig[i] |= bit
        groups = {}
        for i in range(natoms):
            if mcp is not None and cuts[i] == mcp:
                continue
            groups.setdefault(sig[i], []).append((cuts[i], cuts[i + 1] - 1))
        classes = sorted(_norm(g) for g in groups.values())
        self.classes = tuple(classes)
        self.nclasses = len(classes)
        self.nsyms = self.nclasses + (1 if marker_char else 0)
        self.marker_sym = self.nclasses if marker_char else None
        self.reps = tuple(_pick_representative(c) for c in classes)
        # lookup table
        los, ids = [], []
        for k, c in enumerate(classes):
            for lo, hi in c:
                los.append(lo)
                ids.append(k)
        order = sorted(range(len(los)), key=los.__getitem__)
        self._los = [los[i] for i in order]
        self._ids = [ids[i] for i in order]
        self._sizes = tuple(_size(c) for c in classes)
        self.newline_class = self.class_of_cp(10)
        self._key = (self.classes, marker_char)
        self._setcache = {}

    # -- identity -----------------------------------------------------------
    def __eq__(self, other):
        return isinstance(other, Alphabet) and self._key == other._key

    def __ne__(self, other):
        return not self == other

    def __hash__(self):
        return hash(self._key)

    def __repr__(self):
        return '<Alphabet %d classes%s: %s>' % (
            self.nclasses, ' + marker %r' % self.marker_char
            if self.marker_char else '', ' '.join(map(repr, self.reps)))

    # -- symbols ------------------------------------------------------------
    def class_of_cp(self, cp):
        """Class index of a code point (the marker code point, if a marker is
        in use, maps to the marker symbol)."""
        if self.marker_char is not None and cp == ord(self.marker_char):
            return self.marker_sym
        return self._ids[bisect_right(self._los, cp) - 1]

    def class_of(self, ch):
        return self.class_of_cp(ord(ch))

    def encode(self, word):
        """Word (str) -> list of symbol indices."""
        return [self.class_of_cp(ord(ch)) for ch in word]

    def decode(self, syms):
        """Symbol indices -> str built from representatives / marker char."""
        return ''.join(self.marker_char if k == self.marker_sym and
                       self.marker_char else self.reps[k] for k in syms)

    def symbol_chars(self):
        """One character per symbol (representatives, then the marker)."""
        return list(self.reps) + ([self.marker_char] if self.marker_char else [])

    def members(self, k, limit=None):
        """Iterate over the code points of class ``k`` (as characters)."""
        n = 0
        for lo, hi in self.classes[k]:
            for c in range(lo, hi + 1):
                if limit is not None and n >= limit:
                    return
                n += 1
                yield chr(c)

    def set_to_classes(self, ranges):
        """Range list -> frozenset of class indices.  Raises ValueError when
        the set cuts through a class (alphabet not built for this set)."""
        got = self._setcache.get(ranges)
        if got is not None:
            return got
        rs = ranges
        if self.marker_char is not None:
            rs = _without(rs, ord(self.marker_char))
        ks = set()
        for lo, hi in rs:
            ks.add(self._ids[bisect_right(self._los, lo) - 1])
            i = bisect_right(self._los, lo)
            while i < len(self._los) and self._los[i] <= hi:
                ks.add(self._ids[i])
                i += 1
        if sum(self._sizes[k] for k in ks) != _size(rs):
            raise ValueError('alphabet does not respect a character set used '
                             'by the pattern; build it with make_alphabet('
                             'patterns=[...all patterns...])')
        got = frozenset(ks)
        self._setcache[ranges] = got
        return got


# --------------------------------------------------------------------------
# Pattern -> prioritised Thompson NFA
# --------------------------------------------------------------------------

_ALLOWED_FLAGS = re.UNICODE | re.DOTALL | re.VERBOSE | re.ASCII

# node kinds
K_CHAR, K_SPLIT, K_TAG, K_ASSERT, K_ACCEPT = range(5)
# assertion kinds
A_BEGIN, A_END, A_ENDSTR = range(3)
# obligations on the input that follows an anchor (larger = weaker)
OB_END, OB_ENDNL, OB_NONE = range(3)     # '' only | '' or '\n' | anything


def _parse(pattern, flags):
    if not isinstance(pattern, str):
        raise Unsupported('only str patterns are supported')
    try:
        tree = _sre_parser.parse(pattern, flags)
    except (re.error, ValueError, OverflowError, RecursionError) as e:
        raise Unsupported('pattern rejected by re: %s' % e)
    bad = tree.state.flags & ~_ALLOWED_FLAGS
    if bad:
        raise Unsupported('flag(s) %r not supported' % (re.RegexFlag(bad),))
    return tree


class PNFA:
    """Prioritised Thompson NFA of a pattern (alphabet independent).

    ``kind[n]`` / ``arg[n]`` describe node ``n``:

    * ``K_CHAR``   arg ``(set_index, target, literal_cp_or_None)`` consumes
      one character of ``sets[set_index]``;
    * ``K_SPLIT``  arg ``[targets...]`` epsilon edges in PRIORITY order
      (greedy repeat: body first; lazy: exit first; alternation: left first);
    * ``K_TAG``    arg ``(tag, target)``; tag ``2*g`` opens group ``g``, tag
      ``2*g+1`` closes it; group 0 is the whole match;
    * ``K_ASSERT`` arg ``(A_BEGIN|A_END|A_ENDSTR, target)``;
    * ``K_ACCEPT``.
    """

    def __init__(self, pattern, flags):
        tree = _parse(pattern, flags)
        self.pattern = pattern
        self.flags = tree.state.flags
        self.groups = tree.state.groups          # number of groups incl. 0
        self.groupdict = dict(tree.state.groupdict)
        self.kind, self.arg = [], []
        self.sets, self._setidx = [], {}
        self.explicit = []      # ranges spelled out inside [...] / [^...]
        self.has_begin = self.has_end = False
        self.accept = self._new(K_ACCEPT, None)
        end = self._new(K_TAG, (1, self.accept))
        body = self._seq(list(tree), end)
        self.start = self._new(K_TAG, (0, body))

    # -- construction -------------------------------------------------------
    def _new(self, kind, arg):
        if len(self.kind) >= MAX_NFA_NODES:
            raise ResourceLimit('pattern expands to too many NFA nodes')
        self.kind.append(kind)
        self.arg.append(arg)
        return len(self.kind) - 1

    def _char(self, ranges, nxt, literal=None):
        ranges = _norm(ranges)
        if not ranges:
            raise Unsupported('empty character set')
        i = self._setidx.get(ranges)
        if i is None:
            i = self._setidx[ranges] = len(self.sets)
            self.sets.append(ranges)
        return self._new(K_CHAR, (i, nxt, literal))

    def _seq(self, items, nxt):
        for item in reversed(items):
            nxt = self._one(item, nxt)
        return nxt

    def _in_set(self, items):
        ascii_mode = self.flags & re.ASCII
        negate = False
        rs = []
        for op, av in items:
            if op is _sc.NEGATE:
                negate = True
            elif op is _sc.LITERAL:
                rs.append((av, av))
                self.explicit.append((av, av))
            elif op is _sc.RANGE:
                rs.append((av[0], av[1]))
                self.explicit.append((av[0], av[1]))
            elif op is _sc.CATEGORY:
                rs.extend(_category(av, ascii_mode))
            else:
                raise Unsupported('set item %r' % (op,))
        rs = _norm(rs)
        return _neg(rs) if negate else rs

    def _one(self, item, nxt):
        op, av = item
        if op is _sc.LITERAL:
            return self._char(((av, av),), nxt, literal=av)
        if op is _sc.NOT_LITERAL:
            self.explicit.append((av, av))
            return self._char(_neg(((av, av),)), nxt)
        if op is _sc.ANY:
            if self.flags & re.DOTALL:
                return self._char(((0, MAXCP),), nxt)
            return self._char(_neg(((10, 10),)), nxt)
        if op is _sc.IN:
            return self._char(self._in_set(av), nxt)
        if op is _sc.BRANCH:
            return self._new(K_SPLIT, [self._seq(list(b), nxt) for b in av[1]])
        if op is _sc.SUBPATTERN:
            group, add_flags, del_flags, p = av
            if add_flags or del_flags:
                raise Unsupported('scoped inline flags')
            if group is None:
                return self._seq(list(p), nxt)
            close = self._new(K_TAG, (2 * group + 1, nxt))
            return self._new(K_TAG, (2 * group, self._seq(list(p), close)))
        if op is _sc.MAX_REPEAT or op is _sc.MIN_REPEAT:
            lo, hi, body = av
            return self._repeat(lo, hi, list(body), nxt, op is _sc.MAX_REPEAT)
        if op is _sc.AT:
            if av is _sc.AT_BEGINNING or av is _sc.AT_BEGINNING_STRING:
                self.has_begin = True
                return self._new(K_ASSERT, (A_BEGIN, nxt))
            if av is _sc.AT_END:
                self.has_end = True
                return self._new(K_ASSERT, (A_END, nxt))
            if av is _sc.AT_END_STRING:
                self.has_end = True
                return self._new(K_ASSERT, (A_ENDSTR, nxt))
            raise Unsupported('anchor %r' % (av,))
        raise Unsupported('regex construct %r' % (op,))

    def _repeat(self, lo, hi, body, nxt, greedy):
        infinite = hi is _sc.MAXREPEAT
        if _nullable(body) and (infinite or hi > 1):
            # CPython guards empty iterations in ad-hoc ways; not modelled.
            raise Unsupported('repeat (max > 1) of a body that can match the '
                              'empty string')
        if infinite:
            loop = self._new(K_SPLIT, None)
            b = self._seq(body, loop)
            self.arg[loop] = [b, nxt] if greedy else [nxt, b]
            cur = loop
        else:
            cur = nxt
            for _ in range(hi - lo):
                b = self._seq(body, cur)
                cur = self._new(K_SPLIT, [b, nxt] if greedy else [nxt, b])
        for _ in range(lo):
            cur = self._seq(body, cur)
        return cur

    def group_index(self, group):
        """Group number of an int or a group name."""
        if isinstance(group, str):
            if group not in self.groupdict:
                raise ValueError('no group named %r' % group)
            return self.groupdict[group]
        if not (isinstance(group, int) and 0 <= group < self.groups):
            raise ValueError('no such group: %r' % (group,))
        return group


def _nullable(items):
    for op, av in items:
        if op in (_sc.LITERAL, _sc.NOT_LITERAL, _sc.ANY, _sc.IN):
            return False
        if op is _sc.BRANCH:
            if not any(_nullable(list(b)) for b in av[1]):
                return False
        elif op is _sc.SUBPATTERN:
            if not _nullable(list(av[3])):
                return False
        elif op is _sc.MAX_REPEAT or op is _sc.MIN_REPEAT:
            if av[0] > 0 and not _nullable(list(av[2])):
                return False
        elif op is _sc.AT:
            pass
        else:
            raise Unsupported('regex construct %r' % (op,))
    return True


@lru_cache(maxsize=256)
def compile_prioritized(pattern, flags=0):
    """Parse ``pattern`` (``re._parser``) and build its prioritised Thompson
    NFA (:class:`PNFA`).  Raises :class:`Unsupported` for back-references,
    look-around, conditionals, possessive/atomic constructs, ``\\b``,
    IGNORECASE/MULTILINE/LOCALE, scoped flags, bytes patterns and repeats
    (max > 1) of nullable bodies."""
    return PNFA(pattern, int(flags))


_LEFT_CONTEXT_ATS = {'AT_BEGINNING', 'AT_BEGINNING_LINE', 'AT_BEGINNING_STRING',
                     'AT_BOUNDARY', 'AT_NON_BOUNDARY'}


def anchor_kinds(pattern, flags=0):
    """Set of names of the zero-width context tests a pattern contains:
    ``AT_*`` codes plus ``'LOOKAHEAD'`` / ``'LOOKBEHIND'``.  Works on any
    pattern ``re`` can parse, supported here or not."""
    try:
        tree = _sre_parser.parse(pattern, flags)
    except re.error as e:
        raise Unsupported('invalid pattern: %s' % e)
    found = set()

    def walk(items):
        for op, av in items:
            if op is _sc.AT:
                found.add(str(av))
            elif op in (_sc.ASSERT, _sc.ASSERT_NOT):
                found.add('LOOKAHEAD' if av[0] >= 0 else 'LOOKBEHIND')
                walk(av[1])
            elif op is _sc.BRANCH:
                for b in av[1]:
                    walk(b)
            elif op is _sc.SUBPATTERN:
                walk(av[3])
            elif op in (_sc.MAX_REPEAT, _sc.MIN_REPEAT, _sc.POSSESSIVE_REPEAT):
                walk(av[2])
            elif op is _sc.ATOMIC_GROUP:
                walk(av)
            elif op is _sc.GROUPREF_EXISTS:
                walk(av[1])
                if av[2] is not None:
                    walk(av[2])
    walk(tree)
    return found


def uses_anchors(pattern, flags=0):
    """True iff the pattern looks at what is LEFT of the match start (``^``,
    ``\\A``, ``\\b``, ``\\B``, look-behind).  For such patterns
    ``match(s, pos)`` is NOT ``match(s[pos:])`` and results of this module must
    not be transferred to ``pos > 0``.  (``$`` and ``\\Z`` only look right and
    do not count; see :func:`anchor_kinds` for the full list.)"""
    kinds = anchor_kinds(pattern, flags)
    return bool(kinds & _LEFT_CONTEXT_ATS) or 'LOOKBEHIND' in kinds


# --------------------------------------------------------------------------
# Lang: complete DFA over an Alphabet
# --------------------------------------------------------------------------

def _minimize(nsyms, trans, accept, start):
    """Moore partition refinement on the reachable part.  Returns
    (trans, accept, start) with states numbered in BFS order from start."""
    # reachable
    order, seen = [start], {start}
    for s in order:
        for t in trans[s]:
            if t not in seen:
                seen.add(t)
                order.append(t)
    block = {s: (1 if accept[s] else 0) for s in order}
    nblocks = len(set(block.values()))
    while True:
        sigs = {}
        newblock = {}
        for s in order:
            sig = (block[s],) + tuple(block[t] for t in trans[s])
            b = sigs.get(sig)
            if b is None:
                b = sigs[sig] = len(sigs)
            newblock[s] = b
        block = newblock
        if len(sigs) == nblocks:
            break
        nblocks = len(sigs)
    # renumber blocks in BFS order from the start block
    reps = {}
    for s in order:
        reps.setdefault(block[s], s)
    num = {block[start]: 0}
    queue = [block[start]]
    for b in queue:
        for t in trans[reps[b]]:
            bt = block[t]
            if bt not in num:
                num[bt] = len(num)
                queue.append(bt)
    ntrans = [None] * len(num)
    nacc = [False] * len(num)
    for b, i in num.items():
        ntrans[i] = tuple(num[block[t]] for t in trans[reps[b]])
        nacc[i] = bool(accept[reps[b]])
    return ntrans, nacc, 0


class Lang:
    """A regular language as a complete, minimal DFA over an :class:`Alphabet`.

    Words are over the alphabet's symbols (character classes plus, if the
    alphabet has one, the marker symbol).  Note that ``~L`` is the complement
    with respect to ALL symbol words, marked or not.  Operands of ``& | -``
    and of :func:`equivalent` / :func:`subset` must share an equal alphabet.
    """

    def __init__(self, alphabet, trans, accept, start=0, _minimal=False):
        self.alphabet = alphabet
        if not _minimal:
            trans, accept, start = _minimize(alphabet.nsyms, trans, accept, start)
        self.trans, self.accept, self.start = trans, accept, start

    # -- constructors -------------------------------------------------------
    @classmethod
    def empty(cls, alphabet):
        return cls(alphabet, [tuple([0] * alphabet.nsyms)], [False])

    @classmethod
    def all_words(cls, alphabet):
        """Every symbol word (including words with markers)."""
        return cls(alphabet, [tuple([0] * alphabet.nsyms)], [True])

    @classmethod
    def unmarked(cls, alphabet):
        """Every word without a marker, i.e. every real string."""
        n, k = alphabet.nsyms, alphabet.nclasses
        return cls(alphabet, [tuple([0] * k + [1] * (n - k)), tuple([1] * n)],
                   [True, False])

    @classmethod
    def one_marker(cls, alphabet):
        """Every word with exactly one marker."""
        _need_marker(alphabet)
        k = alphabet.nclasses
        return cls(alphabet, [tuple([0] * k + [1]), tuple([1] * k + [2]),
                              tuple([2] * (k + 1))], [False, True, False])

    # -- basics -------------------------------------------------------------
    def __len__(self):
        return len(self.trans)

    def __repr__(self):
        return '<Lang %d states over %r>' % (len(self.trans), self.alphabet)

    def accepts_syms(self, syms):
        s, trans = self.start, self.trans
        for k in syms:
            s = trans[s][k]
        return self.accept[s]

    def accepts(self, word):
        """Membership of a real ``str`` (the alphabet's marker character, if
        any, is read as the marker symbol)."""
        return self.accepts_syms(self.alphabet.encode(word))

    def is_empty(self):
        return not any(self.accept)     # minimal => all states reachable

    def shortest_word(self):
        """A shortest accepted word as a ``str`` (None if empty).  Ties are
        broken by symbol order, so the result is deterministic."""
        syms = self.shortest_syms()
        return None if syms is None else self.alphabet.decode(syms)

    def shortest_syms(self):
        if self.accept[self.start]:
            return []
        prev = {self.start: None}
        queue = deque([self.start])
        while queue:
            s = queue.popleft()
            for k, t in enumerate(self.trans[s]):
                if t not in prev:
                    prev[t] = (s, k)
                    if self.accept[t]:
                        out = []
                        while prev[t] is not None:
                            t, k = prev[t]
                            out.append(k)
                        return out[::-1]
                    queue.append(t)
        return None

    def words(self, maxlen):
        """All accepted words (as str over representatives) up to ``maxlen``."""
        out = []
        dead = self._dead_states()

        def rec(s, acc):
            if self.accept[s]:
                out.append(self.alphabet.decode(acc))
            if len(acc) < maxlen:
                for k, t in enumerate(self.trans[s]):
                    if t not in dead:
                        rec(t, acc + [k])
        rec(self.start, [])
        return out

    def _dead_states(self):
        n = len(self.trans)
        rev = [[] for _ in range(n)]
        for s in range(n):
            for t in self.trans[s]:
                rev[t].append(s)
        live = {s for s in range(n) if self.accept[s]}
        stack = list(live)
        while stack:
            for p in rev[stack.pop()]:
                if p not in live:
                    live.add(p)
                    stack.append(p)
        return set(range(n)) - live

    # -- boolean algebra ----------------------------------------------------
    def _product(self, other, op):
        if not isinstance(other, Lang):
            return NotImplemented
        if self.alphabet != other.alphabet:
            raise ValueError('languages over different alphabets; build both '
                             'with the same universe=make_alphabet(...)')
        ta, tb = self.trans, other.trans
        ids = {(self.start, other.start): 0}
        pairs = [(self.start, other.start)]
        trans = []
        for a, b in pairs:
            row = []
            for x, y in zip(ta[a], tb[b]):
                i = ids.get((x, y))
                if i is None:
                    i = ids[(x, y)] = len(pairs)
                    pairs.append((x, y))
                    if i > MAX_DFA_STATES:
                        raise ResourceLimit('product automaton too large')
                row.append(i)
            trans.append(row)
        accept = [op(self.accept[a], other.accept[b]) for a, b in pairs]
        return Lang(self.alphabet, trans, accept, 0)

    def __and__(self, other):
        return self._product(other, lambda x, y: x and y)

    def __or__(self, other):
        return self._product(other, lambda x, y: x or y)

    def __sub__(self, other):
        return self._product(other, lambda x, y: x and not y)

    def __xor__(self, other):
        return self._product(other, lambda x, y: x != y)

    def __invert__(self):
        return Lang(self.alphabet, self.trans, [not a for a in self.accept],
                    self.start, _minimal=True)

    def minus(self, other):
        return self - other

    def complement(self):
        return ~self

    # -- marker plumbing ----------------------------------------------------
    def with_marker_anywhere(self):
        """{ u + marker + v | u + v in self }, for a marker-free ``self``."""
        _need_marker(self.alphabet)
        m, n = self.alphabet.marker_sym, len(self.trans)
        dead = 2 * n
        trans = []
        for s in range(n):
            trans.append(list(self.trans[s][:m]) + [n + s])
        for s in range(n):
            trans.append([n + t for t in self.trans[s][:m]] + [dead])
        trans.append([dead] * (m + 1))
        accept = [False] * n + list(self.accept) + [False]
        return Lang(self.alphabet, trans, accept, self.start)

    def erase_marker(self):
        """{ w with all markers deleted | w in self } (a marker-free Lang)."""
        _need_marker(self.alphabet)
        m = self.alphabet.marker_sym

        def close(states):
            out, stack = set(states), list(states)
            while stack:
                t = self.trans[stack.pop()][m]
                if t not in out:
                    out.add(t)
                    stack.append(t)
            return frozenset(out)
        start = close({self.start})
        ids, sets, trans = {start: 0, frozenset(): 1}, [start, frozenset()], []
        i = 0
        while i < len(sets):
            cur = sets[i]
            i += 1
            row = []
            for k in range(m):
                nxt = close({self.trans[s][k] for s in cur})
                j = ids.get(nxt)
                if j is None:
                    j = ids[nxt] = len(sets)
                    sets.append(nxt)
                row.append(j)
            row.append(1)
            trans.append(row)
        accept = [any(self.accept[s] for s in st) for st in sets]
        return Lang(self.alphabet, trans, accept, 0)


def _need_marker(alphabet):
    if alphabet.marker_char is None:
        raise ValueError('the alphabet has no marker symbol; build it with '
                         'make_alphabet(..., marker=True)')


def equivalent(a, b):
    """None if the two languages are equal, else a SHORTEST word (real ``str``;
    marker character included for marked languages) in exactly one of them."""
    return (a ^ b).shortest_word()


def subset(a, b):
    """None if ``a`` is a subset of ``b``, else a shortest word in ``a - b``."""
    return (a - b).shortest_word()


# --------------------------------------------------------------------------
# Building alphabets
# --------------------------------------------------------------------------

def _pattern_sets(pattern, flags=0):
    """Character sets a regex distinguishes (supported subset only)."""
    return list(compile_prioritized(pattern, flags).sets)


def _extra_to_sets(extra, flags=0):
    """An 'extra class' may be: a regex string (all its character sets are
    added, e.g. r'[\\s()]'), an iterable of code points / 1-char strings, a
    range list of (lo, hi) pairs, or a predicate ``f(ch) -> bool`` (evaluated
    on every code point)."""
    if isinstance(extra, str):
        return _pattern_sets(extra, flags)
    if callable(extra):
        return [_points_to_ranges(c for c in range(MAXCP + 1) if extra(chr(c)))]
    items = list(extra)
    if items and all(isinstance(x, tuple) and len(x) == 2 for x in items):
        return [_norm(items)]
    return [_points_to_ranges(ord(x) if isinstance(x, str) else int(x)
                              for x in items)]


def make_alphabet(patterns=(), extra_classes=(), marker=False, flags=0):
    """Build the common :class:`Alphabet` for a query.

    ``patterns``: regex strings or ``(regex, flags)`` pairs -- every pattern
    AND every specification regex that will be turned into a :class:`Lang`.
    ``extra_classes``: further distinctions to force (see
    :func:`from_predicate_classes`).  ``marker``: False/None (no marker
    symbol), True or '' (``DEFAULT_MARKER``) or a 1-character string."""
    if isinstance(patterns, str):
        patterns = [patterns]
    sets = []
    for p in patterns:
        if isinstance(p, tuple):
            sets.extend(_pattern_sets(p[0], int(p[1])))
        else:
            sets.extend(_pattern_sets(p, int(flags)))
    for e in extra_classes:
        sets.extend(_extra_to_sets(e, int(flags)))
    if marker is True or marker == '':
        marker = DEFAULT_MARKER
    elif not marker:
        marker = None
    return Alphabet(sets, marker)


def common_alphabet(*patterns, marker=False, extra_classes=(), flags=0):
    """``make_alphabet`` convenience: ``common_alphabet(p1, p2, marker=True)``."""
    return make_alphabet(patterns, extra_classes, marker, flags)


def from_predicate_classes(extra_sets=(), patterns=(), marker=False, flags=0):
    """Alphabet that (also) separates caller-chosen character sets, so that a
    caller's own predicates are constant on every class.  Each element of
    ``extra_sets`` is a set/iterable of code points or characters, a list of
    ``(lo, hi)`` ranges, a regex character-class string such as ``r'[\\s()]'``
    or a predicate ``f(ch) -> bool``."""
    return make_alphabet(patterns, extra_sets, marker, flags)


def _resolve_universe(universe, pattern, flags, marker):
    """marker: None = not needed; '' = needed, any char; 'x' = needed, 'x'."""
    if universe is None:
        return make_alphabet([(pattern, flags)],
                             marker=False if marker is None else marker)
    if not isinstance(universe, Alphabet):
        raise TypeError('universe must be an Alphabet')
    if marker is not None:
        _need_marker(universe)
        if marker not in ('', True) and marker != universe.marker_char:
            raise ValueError('marker %r differs from the universe marker %r'
                             % (marker, universe.marker_char))
    return universe


# --------------------------------------------------------------------------
# Determinisation
# --------------------------------------------------------------------------

ST_N, ST_R, ST_E, ST_M = range(4)   # not crossed / just now / earlier / at marker


def _masks(nfa, alphabet, allow_marker_literal):
    """Per node: bitmask of the classes a K_CHAR node consumes; the set of
    nodes that consume the marker symbol instead."""
    mcp = ord(alphabet.marker_char) if alphabet.marker_char else None
    if mcp is not None and any(lo <= mcp <= hi for lo, hi in nfa.explicit):
        raise Unsupported('the marker character %r is spelled out inside a '
                          'character set' % alphabet.marker_char)
    setmask = []
    for rs in nfa.sets:
        m = 0
        for k in alphabet.set_to_classes(rs):
            m |= 1 << k
        setmask.append(m)
    mask = [0] * len(nfa.kind)
    marker_nodes = set()
    for n, kind in enumerate(nfa.kind):
        if kind == K_CHAR:
            si, _t, lit = nfa.arg[n]
            if mcp is not None and lit == mcp:
                if not allow_marker_literal:
                    raise Unsupported('the pattern under analysis mentions the '
                                      'marker character %r' % alphabet.marker_char)
                marker_nodes.add(n)
            else:
                mask[n] = setmask[si]
    return mask, marker_nodes


def _step_ob(ob, is_newline):
    """Obligation after one more input character; -1 = violated."""
    if ob == OB_NONE:
        return OB_NONE
    if ob == OB_ENDNL and is_newline:
        return OB_END
    return -1


def _det_prioritized(nfa, alphabet, tag, mode):
    """Leftmost-first determinisation (the Pike-VM thread list as DFA state).

    A DFA state is ``(threads, marker_seen)``; ``threads`` is the ordered
    tuple of ``(node, obligation, status)`` with node a K_CHAR or K_ACCEPT
    node.  ``obligation`` records a pending ``$`` / ``\\Z`` (the rest of the
    input must be '' / '' or '\\n'); a thread that reached ACCEPT stays there
    (``match`` ignores the remaining input) but dies if its obligation is
    violated, and it cuts all lower-priority threads only once it has no
    obligation left to check.  Threads are deduplicated on (node, obligation),
    a weaker-or-equal obligation of higher priority subsuming a lower one.
    The winner at the end of the input is the first thread sitting in ACCEPT.

    mode: 'match' | 'whole' | 'marked' | 'absent'; ``tag`` is the tag whose
    crossing is observed (None for 'match')."""
    kind, arg, ACC = nfa.kind, nfa.arg, nfa.accept
    mask, marker_nodes = _masks(nfa, alphabet, False)
    K, nsyms, nl = alphabet.nclasses, alphabet.nsyms, alphabet.newline_class
    crossed = ST_E if mode == 'absent' else ST_R

    def closure(node, ob, st, out, best, at_start, seen_marker):
        """Priority-ordered epsilon closure; appends threads to ``out``;
        returns True when an unconditional ACCEPT was reached (cut)."""
        stack = [(node, ob, st)]
        while stack:
            n, ob, st = stack.pop()
            if best.get(n, -1) >= ob:
                continue
            best[n] = ob
            k = kind[n]
            if k == K_CHAR:
                out.append((n, ob, st))
            elif k == K_ACCEPT:
                out.append((n, ob, st))
                if ob == OB_NONE:
                    return True
            elif k == K_SPLIT:
                for t in reversed(arg[n]):
                    stack.append((t, ob, st))
            elif k == K_TAG:
                t, target = arg[n]
                if t == tag:
                    st = ST_E if seen_marker else crossed
                stack.append((target, ob, st))
            else:
                a, target = arg[n]
                if a == A_BEGIN:
                    if at_start:
                        stack.append((target, ob, st))
                elif a == A_END:
                    stack.append((target, min(ob, OB_ENDNL), st))
                else:
                    stack.append((target, OB_END, st))
        return False

    init = []
    closure(nfa.start, OB_NONE, ST_N, init, {}, True, False)
    DEAD = ((), True)
    start = (tuple(init), False)
    ids = {start: 0}
    states = [start]
    trans = []
    i = 0
    while i < len(states):
        threads, seen = states[i]
        i += 1
        row = []
        for c in range(K):
            bit = 1 << c
            isnl = c == nl
            out, best = [], {}
            for n, ob, st in threads:
                ob2 = _step_ob(ob, isnl)
                if ob2 < 0:
                    continue
                if st == ST_R:
                    st = ST_E
                if n == ACC:
                    if best.get(n, -1) < ob2:
                        best[n] = ob2
                        out.append((n, ob2, st))
                        if ob2 == OB_NONE:
                            break
                elif mask[n] & bit:
                    if closure(arg[n][1], ob2, st, out, best, False, seen):
                        break
            key = (tuple(out), seen) if out else DEAD
            j = ids.get(key)
            if j is None:
                j = ids[key] = len(states)
                states.append(key)
                if j > MAX_DFA_STATES:
                    raise ResourceLimit('determinisation too large')
            row.append(j)
        if nsyms > K:
            if mode == 'marked' and not seen and threads:
                key = (tuple((n, ob, ST_M if st == ST_R else st)
                             for n, ob, st in threads), True)
            else:
                key = DEAD
            j = ids.get(key)
            if j is None:
                j = ids[key] = len(states)
                states.append(key)
            row.append(j)
        trans.append(row)

    accept = []
    for threads, seen in states:
        acc = False
        for n, ob, st in threads:
            if n == ACC:            # the winner: first thread in ACCEPT
                if mode == 'match':
                    acc = True
                elif mode == 'whole':
                    acc = st == ST_R
                elif mode == 'marked':
                    acc = seen and st == ST_M
                else:
                    acc = st == ST_N
                break
        accept.append(acc)
    return Lang(alphabet, trans, accept, 0)


def _det_plain(nfa, alphabet):
    """Subset construction without priorities: the language of ``fullmatch``.
    Literal occurrences of the alphabet's marker character in the pattern
    consume the marker symbol (specification regexes for marked languages);
    the marker is not a character, so ``^ $ \\A \\Z`` see through it."""
    kind, arg, ACC = nfa.kind, nfa.arg, nfa.accept
    mask, marker_nodes = _masks(nfa, alphabet, True)
    K, nsyms, nl = alphabet.nclasses, alphabet.nsyms, alphabet.newline_class

    def closure(node, ob, best, at_start):
        stack = [(node, ob)]
        while stack:
            n, ob = stack.pop()
            if best.get(n, -1) >= ob:
                continue
            best[n] = ob
            k = kind[n]
            if k == K_SPLIT:
                for t in arg[n]:
                    stack.append((t, ob))
            elif k == K_TAG:
                stack.append((arg[n][1], ob))
            elif k == K_ASSERT:
                a, target = arg[n]
                if a == A_BEGIN:
                    if at_start:
                        stack.append((target, ob))
                elif a == A_END:
                    stack.append((target, min(ob, OB_ENDNL)))
                else:
                    stack.append((target, OB_END))

    def freeze(best, at_start):
        items = frozenset((n, ob) for n, ob in best.items()
                          if kind[n] in (K_CHAR, K_ACCEPT))
        return (items, at_start and nfa.has_begin and bool(items))

    best = {}
    closure(nfa.start, OB_NONE, best, True)
    start = freeze(best, True)
    ids = {start: 0}
    states = [start]
    trans = []
    i = 0
    while i < len(states):
        items, at_start = states[i]
        i += 1
        row = []
        for c in range(nsyms):
            best = {}
            if c < K:
                bit = 1 << c
                for n, ob in items:
                    if n != ACC and mask[n] & bit:
                        ob2 = _step_ob(ob, c == nl)
                        if ob2 >= 0:
                            closure(arg[n][1], ob2, best, False)
                key = freeze(best, False)
            else:
                for n, ob in items:
                    if n in marker_nodes:
                        closure(arg[n][1], ob, best, at_start)
                key = freeze(best, at_start)
            j = ids.get(key)
            if j is None:
                j = ids[key] = len(states)
                states.append(key)
                if j > MAX_DFA_STATES:
                    raise ResourceLimit('determinisation too large')
            row.append(j)
        trans.append(row)
    accept = [any(n == ACC for n, _ob in items) for items, _a in states]
    return Lang(alphabet, trans, accept, 0)


# --------------------------------------------------------------------------
# Public queries
# --------------------------------------------------------------------------

def lang_fullmatch(pattern, flags=0, universe=None, marker=None):
    """``{ s | re.fullmatch(pattern, s) }`` -- the pattern as an ORDINARY
    regular language (priorities are irrelevant for ``fullmatch``).

    Also the way to write specifications: any supported regex; when the
    alphabet has a marker, a literal marker character in the regex stands for
    the marker symbol (give ``marker=''``/a char, or a ``universe`` with a
    marker).  Character sets and ``.`` never match the marker symbol."""
    nfa = compile_prioritized(pattern, int(flags))
    alphabet = _resolve_universe(universe, pattern, int(flags), marker)
    return _det_plain(nfa, alphabet)


def lang_match(pattern, flags=0, universe=None):
    """``{ s | re.compile(pattern).match(s) is not None }``."""
    nfa = compile_prioritized(pattern, int(flags))
    alphabet = _resolve_universe(universe, pattern, int(flags), None)
    return _det_prioritized(nfa, alphabet, None, 'match')


def lang_match_then_whole(pattern, flags=0, universe=None):
    """``{ s | m = re.compile(pattern).match(s); m is not None and
    m.group() == s }`` under leftmost-first semantics.  This is in general a
    proper subset of :func:`lang_fullmatch`."""
    nfa = compile_prioritized(pattern, int(flags))
    alphabet = _resolve_universe(universe, pattern, int(flags), None)
    return _det_prioritized(nfa, alphabet, 1, 'whole')


def lang_group_marked(pattern, group, edge, flags=0, marker='', universe=None):
    """``{ s with the marker inserted at m.start(group) / m.end(group) |
    m = match(s) is not None and the group participated }``; ``edge`` is
    ``'start'`` or ``'end'``; ``group`` a number or a name.  Every word of
    the language has exactly one marker."""
    if edge not in ('start', 'end'):
        raise ValueError("edge must be 'start' or 'end'")
    nfa = compile_prioritized(pattern, int(flags))
    g = nfa.group_index(group)
    alphabet = _resolve_universe(universe, pattern, int(flags),
                                 '' if marker in (None, True) else marker)
    return _det_prioritized(nfa, alphabet, 2 * g + (edge == 'end'), 'marked')


def lang_end_marked(pattern, flags=0, marker='', universe=None):
    """``{ s[:e] + marker + s[e:] | m = match(s) is not None, e = m.end() }``.
    ``match`` ignores the input after ``e``; the marker must sit exactly where
    the winning thread accepted."""
    return lang_group_marked(pattern, 0, 'end', flags, marker, universe)


def lang_group_absent(pattern, group, flags=0, universe=None):
    """``{ s | m = match(s) is not None and m.group(group) is None }``."""
    nfa = compile_prioritized(pattern, int(flags))
    g = nfa.group_index(group)
    alphabet = _resolve_universe(universe, pattern, int(flags), None)
    return _det_prioritized(nfa, alphabet, 2 * g + 1, 'absent')
