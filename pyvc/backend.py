"""Discharging obligations: z3 (python API, 5.x), /usr/bin/z3 (4.8.12), cvc5 (CLI).

Obligations are serialised to SMT-LIB 2 in the generating process and solved
in a process pool.  `unsat` from any back end discharges; `sat` yields a model
(z3) where available; back ends answering sat vs unsat on the same query is a
checker fault.
"""
import multiprocessing as mp
import os
import re
import subprocess
import tempfile
import time

import z3


def _top_forms(text):
    """Top-level s-expressions (and comment lines) of an SMT-LIB script, in order."""
    forms = []
    i, n = 0, len(text)
    while i < n:
        ch = text[i]
        if ch.isspace():
            i += 1
        elif ch == ';':
            j = text.find('\n', i)
            j = n if j < 0 else j
            forms.append(text[i:j])
            i = j
        elif ch == '(':
            depth, j, in_str = 0, i, False
            while j < n:
                c = text[j]
                if in_str:
                    if c == '"':
                        if j + 1 < n and text[j + 1] == '"':
                            j += 1
                        else:
                            in_str = False
                elif c == '"':
                    in_str = True
                elif c == '|':
                    j = text.index('|', j + 1)
                elif c == '(':
                    depth += 1
                elif c == ')':
                    depth -= 1
                    if depth == 0:
                        break
                j += 1
            forms.append(text[i:j + 1])
            i = j + 1
        else:
            j = text.find('\n', i)
            j = n if j < 0 else j
            forms.append(text[i:j])
            i = j
    return forms


def order_datatypes(text):
    """z3's printer emits datatype declarations without following dependencies that run through
    Array / Seq sort arguments; re-order the declare-datatypes forms topologically (a form depends
    on another when it mentions its sort name)."""
    if text.count('(declare-datatypes') < 2:
        return text
    # only the declaration header needs re-ordering; the assertions (the bulk of the text) follow it
    cut = text.find('\n(assert')
    tail = ''
    if cut > 0 and '(declare-datatypes' not in text[cut:]:
        text, tail = text[:cut], text[cut:]
    return _order_header(text) + tail


def _order_header(text):
    forms = _top_forms(text)
    dts = [(k, f) for k, f in enumerate(forms) if f.startswith('(declare-datatypes')]
    names = {}
    for k, f in dts:
        m = re.match(r'\(declare-datatypes\s*\(\((\S+)\s', f)
        if m:
            names[k] = m.group(1)
    deps = {}
    for k, f in dts:
        body = f[f.index(')) ') + 3:] if ')) ' in f else f
        deps[k] = [k2 for k2, nm in names.items() if k2 != k and re.search(r'(?<![\w!.$-])' + re.escape(nm) + r'(?![\w!.$-])', body)]
    order, seen = [], set()

    def visit(k, stack=()):
        if k in seen or k in stack:
            return
        for d in deps.get(k, []):
            visit(d, stack + (k,))
        seen.add(k)
        order.append(k)
    for k, _ in dts:
        visit(k)
    first = min(k for k, _ in dts)
    dt_idx = {k for k, _ in dts}
    out = [f for k, f in enumerate(forms) if k < first]
    # uninterpreted sorts the datatypes mention must precede them
    out += [f for k, f in enumerate(forms) if k > first and f.startswith('(declare-sort')]
    out += [forms[k] for k in order]
    out += [f for k, f in enumerate(forms) if k > first and k not in dt_idx and not f.startswith('(declare-sort')]
    return '\n'.join(out) + '\n'


def to_smt2(terms):
    s = z3.Solver()
    for t in terms:
        s.add(t)
    return order_datatypes(s.to_smt2())


def split_claim(smt2):
    """The query `assumptions and not (c1 and .. and cn)` as n queries `assumptions and not ci`
    (conjunctions and the consequents of implications are opened): every one unsat <=> the query unsat.
    Returns None when the claim is not a conjunction (or the text cannot be re-read)."""
    try:
        ctx_terms = list(z3.parse_smt2_string(smt2))
    except Exception:
        return None
    if not ctx_terms or not z3.is_not(ctx_terms[-1]):
        return None
    pc, claim = ctx_terms[:-1], ctx_terms[-1].arg(0)

    def conj(t):
        if z3.is_and(t):
            out = []
            for c in t.children():
                out.extend(conj(c))
            return out
        if z3.is_implies(t):
            return [z3.Implies(t.arg(0), c) for c in conj(t.arg(1))]
        return [t]
    cs = [c for c in conj(claim) if not z3.is_true(z3.simplify(c))]
    if len(cs) < 2 or len(cs) > 40:
        return None
    return [to_smt2(pc + [z3.Not(c)]) for c in cs]


def uses_strings(smt2):
    return ('String' in smt2) or ('(Seq ' in smt2) or ('seq.' in smt2) or ('str.' in smt2)


def uses_quantifiers(smt2):
    return '(forall ' in smt2 or '(exists ' in smt2


def decode_z3_string(v):
    """Python str of a z3 string value (z3 escapes non-printables as \\u{..})."""
    raw = v.as_string()
    out = []
    i = 0
    while i < len(raw):
        if raw.startswith('\\u{', i):
            j = raw.index('}', i)
            out.append(chr(int(raw[i + 3:j], 16)))
            i = j + 1
        else:
            out.append(raw[i])
            i += 1
    return ''.join(out)


def z3_to_py(v):
    try:
        if z3.is_string_value(v):
            return decode_z3_string(v)
        if z3.is_int_value(v):
            return v.as_long()
        if z3.is_true(v):
            return True
        if z3.is_false(v):
            return False
        if z3.is_app(v) and v.sort().kind() == z3.Z3_DATATYPE_SORT:
            name = v.decl().name()
            if name.startswith('none_'):
                return None
            if name.startswith('some_'):
                return z3_to_py(v.arg(0))
            if name.startswith('mk_Tup'):
                return [z3_to_py(v.arg(i)) for i in range(v.num_args())]
    except Exception:
        pass
    return {'z3': str(v)[:200]}


def model_values(m):
    out = {}
    for d in m.decls():
        if d.arity() == 0:
            out[d.name()] = z3_to_py(m[d])
    return out


def run_z3py(smt2, timeout_ms, want_model=True):
    t0 = time.time()
    try:
        ctx = z3.Context()
        s = z3.Solver(ctx=ctx)
        s.set('timeout', int(timeout_ms))
        s.from_string(smt2)
        r = s.check()
        model = None
        values = None
        if r == z3.sat and want_model:
            try:
                model = str(s.model())[:6000]
                values = model_values(s.model())
            except Exception:
                model = None
        return {'status': str(r), 'backend': 'z3-%s(py)' % z3.get_version_string(),
                'time': time.time() - t0, 'model': model, 'values': values,
                'reason': s.reason_unknown() if r == z3.unknown else None}
    except Exception as ex:      # parse errors etc.
        return {'status': 'error', 'backend': 'z3py', 'time': time.time() - t0, 'model': None,
                'reason': repr(ex)[:300]}


def _run_cli(cmd, smt2, timeout_s, name, suffix='.smt2'):
    t0 = time.time()
    fd, path = tempfile.mkstemp(suffix=suffix, prefix='pyvc_')
    try:
        with os.fdopen(fd, 'w') as f:
            f.write(smt2)
        try:
            p = subprocess.run(cmd + [path], capture_output=True, text=True, timeout=timeout_s + 5)
            out = (p.stdout or '').strip()
            first = out.split('\n', 1)[0].strip() if out else ''
            if first in ('sat', 'unsat', 'unknown'):
                status = first
            else:
                status = 'error' if out or p.stderr else 'unknown'
            return {'status': status, 'backend': name, 'time': time.time() - t0,
                    'model': out.split('\n', 1)[1][:4000] if status == 'sat' and '\n' in out else None,
                    'reason': (out + ' ' + (p.stderr or ''))[:300] if status in ('error', 'unknown') else None}
        except subprocess.TimeoutExpired:
            return {'status': 'unknown', 'backend': name, 'time': time.time() - t0, 'model': None,
                    'reason': 'timeout'}
    finally:
        try:
            os.unlink(path)
        except OSError:
            pass


def run_cvc5(smt2, timeout_ms):
    text = smt2
    if '(set-logic' not in text:
        text = '(set-logic ALL)\n' + text
    cmd = ['/usr/bin/cvc5', '--strings-exp', '--tlimit=%d' % int(timeout_ms), '--lang=smt2']
    return _run_cli(cmd, text, timeout_ms / 1000.0, 'cvc5-1.0.3')


def run_z3old(smt2, timeout_ms):
    cmd = ['/usr/bin/z3', '-T:%d' % max(1, int(timeout_ms / 1000)), '-smt2']
    return _run_cli(cmd, smt2, timeout_ms / 1000.0, 'z3-4.8.12')


def solve_one(job):
    """job = (id, smt2 | (light_smt2, full_smt2), timeout_ms, portfolio) -> result dict."""
    oid, smt2, timeout_ms, portfolio = job
    if isinstance(smt2, tuple) and len(smt2) == 4:
        coi, light, full, qf = smt2
        r = solve_one((oid, coi, min(timeout_ms, 10000), portfolio))
        if r['status'] == 'unsat':
            r['variant'] = 'cone of influence'
            return r
        # the claim is often a conjunction (a class invariant with several clauses, a postcondition per
        # child kind) of which one conjunct is hard: the conjuncts separately, on the small query
        parts = split_claim(coi) if timeout_ms > 5000 else None
        if parts:
            t0_ = time.time()
            tried_ = list(r.get('tried', []))
            all_unsat = True
            for k_, ptxt in enumerate(parts):
                rp = solve_one((oid, ptxt, timeout_ms, portfolio))
                tried_.extend(rp.get('tried', []))
                if rp['status'] != 'unsat':
                    all_unsat = False
                    break
            if all_unsat:
                return {'status': 'unsat', 'backend': 'cvc5/z3', 'time': time.time() - t0_, 'model': None, 'id': oid,
                        'tried': tried_, 'variant': 'cone of influence, claim split into %d conjuncts' % len(parts)}
        r2 = solve_one((oid, (light, full, qf) if light is not None else full, timeout_ms, portfolio))
        r2['tried'] = r.get('tried', []) + r2.get('tried', [])
        if r2['status'] == 'unknown' and timeout_ms > 5000:
            # last resort: the small (cone-of-influence) query again with the whole budget
            r3 = solve_one((oid, coi, timeout_ms, portfolio))
            r3['tried'] = r2['tried'] + r3.get('tried', [])
            if r3['status'] == 'unsat':
                r3['variant'] = 'cone of influence (full budget)'
                return r3
        return r2
    if isinstance(smt2, tuple):
        light, full, qf = smt2
        r = solve_one((oid, light, min(timeout_ms, 8000) if qf is None else timeout_ms, portfolio))
        if r['status'] == 'unsat':
            r['variant'] = 'quantifier-free instances' + ('' if qf is None else ' + definitional facts')
            return r
        r2 = solve_one((oid, full, timeout_ms, portfolio))
        r2['tried'] = r.get('tried', []) + r2.get('tried', [])
        if r2['status'] == 'unknown' and r['status'] != 'sat' and qf is not None:
            # the strictly quantifier-free form (definitional facts with a quantified body dropped
            # too) only serves the refutation verdict below
            r = solve_one((oid, qf, min(timeout_ms, 8000), portfolio))
            r2['tried'] = r2['tried'] + r.get('tried', [])
        if r2['status'] == 'unknown' and r['status'] == 'sat':
            # refuted once every quantified assumption is replaced by its instances at the terms of
            # the path, and not proved from the quantified form either: reported as refuted, with
            # the model of the instantiated formula
            r2['status'] = 'sat'
            r2['backend'] = r.get('backend')
            r2['model'] = r.get('model')
            r2['values'] = r.get('values')
            r2['variant'] = 'refuted modulo quantifier instantiation (quantified form: unknown)'
        return r2
    tried = []
    verdict = None
    strings = uses_strings(smt2)
    order = portfolio or (['cvc5', 'z3py', 'z3old'] if strings else ['z3py', 'cvc5', 'z3old'])
    for be in order:
        if be == 'z3py':
            r = run_z3py(smt2, timeout_ms)
        elif be == 'cvc5':
            r = run_cvc5(smt2, timeout_ms)
        elif be == 'z3old':
            if strings:
                continue      # 4.8.12 prints / parses Unicode strings differently
            r = run_z3old(smt2, timeout_ms)
        else:
            continue
        tried.append({k: r[k] for k in ('status', 'backend', 'time', 'reason')})
        if r['status'] in ('sat', 'unsat'):
            verdict = r
            break
    if verdict is None:
        verdict = {'status': 'unknown', 'backend': None, 'time': sum(t['time'] for t in tried), 'model': None}
    if verdict['status'] == 'sat' and verdict.get('values') is None:
        # try to obtain a model from z3 for the replay
        r = run_z3py(smt2, timeout_ms)
        tried.append({k: r[k] for k in ('status', 'backend', 'time', 'reason')})
        if r['status'] == 'sat':
            verdict['model'] = r['model']
            verdict['values'] = r.get('values')
        elif r['status'] == 'unsat':
            verdict = {'status': 'conflict', 'backend': 'cvc5 vs z3', 'time': verdict['time'], 'model': None}
    verdict['id'] = oid
    verdict['tried'] = tried
    return verdict


def cross_check(job):
    """Second opinion by a different back end (thorough tier)."""
    oid, smt2, timeout_ms, first_backend = job
    if first_backend and first_backend.startswith('cvc5'):
        r = run_z3py(smt2, timeout_ms, want_model=False)
    else:
        r = run_cvc5(smt2, timeout_ms)
    r['id'] = oid
    return r


def solve_all(obligations, timeout_ms=10000, procs=None, portfolio=None):
    """obligations: list of pyvc.state.Obligation; fills .result; returns stats."""
    jobs = []
    trivial = 0
    for ob in obligations:
        claim = z3.simplify(ob.claim)
        if z3.is_true(claim):
            ob.result = {'status': 'unsat', 'backend': 'simplifier', 'time': 0.0, 'model': None, 'tried': []}
            trivial += 1
            continue
        smt2 = to_smt2(ob.formula())
        ob.smt2 = smt2
        light = to_smt2(ob.formula(light=True)) if ob.has_quantified_assumptions() else None
        qf = to_smt2(ob.formula(light='qf')) if (light is not None and ob.has_quantified_facts()) else None
        if len(ob.pc) > 12:
            smt2 = (to_smt2(ob.formula_coi()), light, smt2, qf)
        elif light is not None:
            smt2 = (light, smt2, qf)
        jobs.append((ob.id + '#' + str(len(jobs)), smt2, timeout_ms, portfolio))
    by_id = {}
    if jobs:
        procs = procs or min(16, os.cpu_count() or 1, len(jobs))
        if procs <= 1:
            results = [solve_one(j) for j in jobs]
        else:
            ctx = mp.get_context('fork')
            with ctx.Pool(procs) as pool:
                results = pool.map(solve_one, jobs, chunksize=1)
        for r in results:
            by_id[r['id']] = r
    k = 0
    for ob in obligations:
        if ob.result is not None and ob.result.get('backend') == 'simplifier':
            continue
        ob.result = by_id[ob.id + '#' + str(k)]
        k += 1
    return {'trivial': trivial, 'solved': len(jobs)}
