"""Symbolic executor, part 4: contracts (application at call sites, clause
evaluation, specification functions) and the per-function verification driver."""
import ast
import inspect

import z3

from . import api, strops
from .state import ExcInfo, Place, State
from .symex import Entity, normal
from .types import (TBool, TFun, TInt, TMap, TNone, TOpaque, TOpt, TRef, TSeq, TStr,
                    TTuple, TUnion, join, parse_type)
from .values import PathEnds
from .values import (NONE, SV, OutsideSubset, TBottom, TypeMismatch, box, coerce, fresh,
                     merge, mk_bool, mk_int, mk_str, named, unbox)

_expr_cache = {}


def parse_expr(src):
    if src not in _expr_cache:
        _expr_cache[src] = ast.parse(src.strip(), mode='eval').body
    return _expr_cache[src]


class ContractMixin:
    # ------------------------------------------------------------------
    # type facts
    # ------------------------------------------------------------------
    def assume_type_facts(self, st, v):
        if isinstance(v, (Entity, Place)) or v is None:
            return
        ty = v.ty
        if isinstance(ty, TRef):
            st.assume(z3.And(v.t >= 0, v.t < st.alloc))
            self.assume_class(st, v)
        elif isinstance(ty, TOpt) and isinstance(ty.inner, TRef):
            self.assume_ref_closed(st, v)
        elif isinstance(ty, TTuple):
            for x in v.t:
                self.assume_type_facts(st, x)

    # ------------------------------------------------------------------
    # binding arguments
    # ------------------------------------------------------------------
    def bind_args(self, st, c, args, kw, node, self_sv):
        """-> dict param -> SV coerced to the declared types (type obligations on mismatch)."""
        names = list(c.params)
        bound = {}
        args = list(args)
        if self_sv is not None:
            bound['self'] = self_sv
            names = [n for n in names if n != 'self']
        elif 'self' in names and args and c.self_type is None and False:
            pass
        pos = list(args)
        if len(pos) > len(names):
            self.oblige(st, False, 'type', 'arity', node=node,
                        info={'claim': 'call of %s with %d positional arguments (TypeError)' % (c.qualname, len(pos))})
            pos = pos[:len(names)]
        for n, a in zip(names, pos):
            bound[n] = a
        for k, v in kw.items():
            if k not in c.params and getattr(c, 'any_kwargs', False):
                continue
            if k not in c.params:
                self.oblige(st, False, 'type', 'kwarg', node=node,
                            info={'claim': 'unexpected keyword %s for %s (TypeError)' % (k, c.qualname)})
                continue
            bound[k] = v
        for n in names:
            if n not in bound:
                ty = c.params[n]
                dflt = None
                if isinstance(ty, tuple):
                    ty, dflt = ty
                if dflt is None and isinstance(c.params[n], str) and '=' in c.params[n]:
                    pass
                if dflt is not None:
                    bound[n] = self.eval(self.scratch_state(), parse_expr(dflt))[0][1]
                else:
                    self.oblige(st, False, 'type', 'missing-arg', node=node,
                                info={'claim': 'argument %s of %s supplied (TypeError)' % (n, c.qualname)})
                    bound[n] = fresh(self.param_type(c, n))
        out = {}
        for n, v in bound.items():
            if n == 'self' and self_sv is not None and 'self' not in c.params:
                out[n] = v
                continue
            ty = self.param_type(c, n) if n in c.params else v.ty
            v = self.need_value(v) if not isinstance(v, Entity) else v
            if isinstance(v, Entity):
                out[n] = v
                continue
            try:
                out[n] = self.coerce_checked(st, v, ty, node, 'arg-' + n)
            except TypeMismatch as ex:
                self.oblige(st, False, 'type', 'arg-' + n, node=node,
                            info={'claim': 'argument %s of %s has type %s (got %s)' % (n, c.qualname, ty, v.ty)})
                out[n] = fresh(ty)
        return out

    def param_type(self, c, n):
        t = c.params[n]
        if isinstance(t, tuple):
            t = t[0]
        return parse_type(t)

    # ------------------------------------------------------------------
    # modifies
    # ------------------------------------------------------------------
    def eval_locations(self, st, mods, env):
        """Modifies entries 'expr.field' / 'expr.*' -> list of (ref SV, field name or None)."""
        out = []
        for m in mods:
            if m == 'nothing':
                continue
            if m.startswith('+'):
                # only objects ALLOCATED AFTER this point (inside the loop / call): field (or '*') of
                # every such instance of the class; objects that exist now keep their values
                cls, _, field = m[1:].rpartition('.')
                out.append((SV(TRef(self.classes.canon(cls)), None), None if field == '*' else field, 'NEW'))
                continue
            if m.startswith('*'):
                # class-wide: every instance of the class, field (or '*')
                cls, _, field = m[1:].rpartition('.')
                out.append((SV(TRef(self.classes.canon(cls)), None), None if field == '*' else field, 'ALL'))
                continue
            base, _, field = m.rpartition('.')
            tmp = st.copy()
            tmp.env = dict(env)
            saved = self.in_contract
            self.in_contract = True
            try:
                res = self.eval(tmp, parse_expr(base))
            finally:
                self.in_contract = saved
            for s2, ref in res:
                ref = self.need_value(ref)
                if isinstance(ref.ty, TOpt):
                    # None -> no location
                    inner = unbox(ref.ty.inner, ref.ty.val(ref.t))
                    out.append((inner, None if field == '*' else field, z3.Not(ref.ty.is_none(ref.t))))
                    continue
                if not isinstance(ref.ty, TRef):
                    raise OutsideSubset('modifies base is not an object: ' + m)
                out.append((ref, None if field == '*' else field, None))
        return out

    def havoc_locations(self, st, mods, env_state, env=None):
        env = env if env is not None else (self.entry_env if self.entry_env is not None else st.env)
        locs = self.eval_locations(st, mods, env)
        for ref, field, guard in locs:
            fields = self.classes.all_fields(ref.ty.cls)
            if field is not None:
                dc, fty = self.classes.field(ref.ty.cls, field)
                if dc is None:
                    raise OutsideSubset('modifies: no field %s on %s' % (field, ref.ty.cls))
                todo = [(field, dc, fty)]
            else:
                todo = []
                for q in self.classes.subclasses(ref.ty.cls):
                    for f, (dc, fty) in self.classes.all_fields(q).items():
                        if (f, dc, fty) not in todo:
                            todo.append((f, dc, fty))
            for f, dc, fty in todo:
                arr = self.heap_array(st, (dc, f), fty)
                if isinstance(guard, str) and guard == 'ALL':
                    st.heap[(dc, f)] = z3.Const(self.fresh_sym('H_%s' % f), arr.sort())
                    continue
                if isinstance(guard, str) and guard == 'NEW':
                    newarr = z3.Const(self.fresh_sym('H_%s' % f), arr.sort())
                    r = z3.Int('fr!r')
                    st.assume(z3.ForAll([r], z3.Implies(r < st.alloc, z3.Select(newarr, r) == z3.Select(arr, r)),
                                        patterns=[z3.Select(newarr, r)]))
                    st.heap[(dc, f)] = newarr
                    continue
                nv = fresh(fty, 'hv_' + f)
                newarr = z3.Store(arr, ref.t, box(nv))
                st.heap[(dc, f)] = newarr if guard is None else z3.If(guard, newarr, arr)
        return locs

    def check_callee_frame(self, st, locs, node, cname):
        if self.frame is None:
            return
        for ref, field, guard in locs:
            if isinstance(guard, str) and guard == 'NEW':
                continue        # the callee writes only objects it allocates itself
            if isinstance(guard, str) and guard == 'ALL':
                ok = any(isinstance(x[0], str) and x[0] == 'ALL' and x[2] == ref.ty.cls
                         and (x[1] is None or x[1] == field) for x in self.frame)
                self.oblige(st, z3.BoolVal(ok), 'frame', 'call-%s:*%s' % (cname.split('.')[-1], ref.ty.cls), node=node,
                            carries=self.frame_carries,
                            info={'claim': 'class-wide effect of %s on %s is within this function\'s modifies clause' % (cname, ref.ty.cls)})
                continue
            allowed = [ref.t >= st.alloc0]
            for x in self.frame:
                if isinstance(x[0], str) and x[0] == 'ALL' and (x[1] is None or x[1] == field) and \
                        (self.classes.is_subclass(ref.ty.cls, x[2]) or self.classes.is_subclass(x[2], ref.ty.cls)):
                    allowed.append(z3.BoolVal(True))
            for (r, fk) in [(x[0], x[1]) for x in self.frame if not isinstance(x[0], str)]:
                if fk is None or field is not None and (fk == field or (isinstance(fk, tuple) and fk[1] == field)):
                    allowed.append(ref.t == r)
            claim = z3.Or(allowed)
            if guard is not None:
                claim = z3.Implies(guard, claim)
            self.oblige(st, claim, 'frame', 'call-%s:%s' % (cname.split('.')[-1], field or '*'), node=node,
                        carries=self.frame_carries,
                        info={'claim': 'locations modified by %s are within this function\'s modifies clause' % cname})

    # ------------------------------------------------------------------
    # contract application at a call site
    # ------------------------------------------------------------------
    def apply_contract(self, st, c, args, kw, node, self_sv=None, static=False):
        self.used_contracts.add(c.qualname)
        if st.init_assigned is not None and c.qualname.endswith('.__init__') and self_sv is not None \
                and 'self' in st.env and isinstance(st.env['self'], SV) and z3.eq(st.env['self'].t, self_sv.t):
            # a base-class constructor (under its own contract) assigns the fields of its classes
            base = c.qualname[:-len('.__init__')]
            for q in self.classes.mro(base):
                m = api.MODELS.get(q)
                if m is not None:
                    st.init_assigned.update(m.fields)
        env = self.bind_args(st, c, args, kw, node, self_sv)
        # preconditions
        for cl in c.requires:
            if cl.assumed:
                continue      # protocol assumption, reported in the evidence (check.py: assumed_requires)
            t = self.eval_contract_expr(st, cl.expr, env, None, use_env=env)
            self.oblige(st, t, 'pre', '%s:%s' % (c.qualname.split('.')[-1], cl.label), node=node,
                        carries=cl.carries,
                        info={'claim': 'precondition of %s: %s' % (c.qualname, cl.expr)})
        pre = st.copy()
        locs = self.eval_locations(st, c.modifies, env)
        self.check_callee_frame(st, locs, node, c.qualname)
        outs = []
        # exceptional outcomes
        prior = []
        normal_guard = []
        for r in c.raises:
            cond = None
            if r.when is not None:
                cond = self.eval_contract_expr(pre, r.when, env, None, use_env=env, sink=st)
            s2 = st.copy()
            if cond is not None:
                s2.assume(z3.And([cond] + [z3.Not(p) for p in prior]))
                prior.append(cond)
                normal_guard.append(z3.Not(cond))
            s2.mark('call:%s:raise:%s' % (c.qualname, r.label))
            if not self.feasible(s2):
                continue
            self.havoc_locations(s2, c.modifies, pre, env)
            s2.alloc = self.fresh_alloc(s2)
            opaque = r.cls.endswith('+')
            cls = self.classes.canon(r.cls.rstrip('+'))
            ex = self.new_object(s2, cls, defaults=False, tag=not opaque)
            if opaque:
                # dynamic class: any subclass
                s2.assume(self.isinstance_term(s2, ex, cls))
            extra = dict(env)
            extra['exc'] = ex
            for cl in r.then:
                s2.assume(self.eval_contract_expr(s2, cl.expr, extra, pre, use_env=extra))
            if r.then and not self.feasible(s2):
                raise OutsideSubset('exceptional postcondition %s of %s is contradictory' % (r.label, c.qualname))
            s2.flow = 'raise'
            s2.exc = ExcInfo(cls, ex, opaque)
            outs.append((s2, None))
        # normal outcome
        for g in normal_guard:
            st.assume(g)
        st.mark('call:' + c.qualname)
        if normal_guard and not self.feasible(st):
            return outs
        self.havoc_locations(st, c.modifies, pre, env)
        if c.modifies or c.fresh_result or not c.pure:
            st.alloc = self.fresh_alloc(st)
        rty = parse_type(c.returns)
        if c.pure and not c.modifies:
            res = self.pure_result(st, c, env, rty)
        else:
            res = fresh(rty, 'r_' + c.qualname.split('.')[-1])
        self.assume_type_facts(st, res)
        if c.fresh_result and isinstance(rty, TRef):
            st.assume(res.t >= pre.alloc)
        extra = dict(env)
        extra['result'] = res
        for cl in list(c.ensures) + (list(c.static_ensures) if static else []):
            st.assume(self.eval_contract_expr(st, cl.expr, extra, pre, use_env=extra))
        if c.ensures and not self.feasible(st):
            # either the path was already dead or the contract is contradictory; tell them apart
            if self.feasible(pre):
                raise OutsideSubset('postcondition of %s is contradictory at this call' % c.qualname)
        if self_sv is not None and (c.modifies or c.qualname.endswith('.__init__')) \
                and self.spec_depth == 0 and not self.in_contract:
            # the callee re-establishes the class invariants of its receiver on normal return
            # (obligation `post:invariant:*` of the callee's own verification)
            owner = c.qualname.rsplit('.', 1)[0]
            if owner in api.MODELS or self.classes.is_real(owner):
                for cl in self.classes.invariants(owner):
                    env2 = {'self': SV(TRef(owner), self_sv.t)}
                    st.assume(self.eval_contract_expr(st, cl.expr, env2, pre, use_env=env2))
        outs.append((st, res))
        return outs

    def pure_result(self, st, c, env, rty):
        """Deterministic result of a pure contract: an uninterpreted function of its arguments."""
        try:
            sorts = []
            terms = []
            for n in c.params:
                v = env[n]
                if isinstance(v, Entity):
                    raise OutsideSubset('entity arg')
                terms.append(box(v))
                sorts.append(terms[-1].sort())
            if isinstance(rty, TTuple) or rty == TNone:
                return fresh(rty, 'r')
            f = strops.ufun('res_' + c.qualname.replace('.', '_').replace(':', '_'), *(sorts + [rty.sort()]))
            return SV(rty, f(*terms)) if terms else fresh(rty, 'r')
        except OutsideSubset:
            return fresh(rty, 'r')

    # ------------------------------------------------------------------
    # contract expressions
    # ------------------------------------------------------------------
    def eval_contract_expr(self, st, src, extra=None, old_state=None, want_bool=True, use_env=None, sink=None):
        """Evaluate a clause in state st.  Names: `use_env` if given (call sites),
        else the verified function's current locals over its entry environment."""
        node = parse_expr(src)
        tmp = st.copy()
        tmp.flow = 'normal'
        if use_env is not None:
            tmp.env = dict(use_env)
        else:
            env = dict(self.entry_env or {})
            env.update(st.env)
            if extra:
                env.update(extra)
            tmp.env = env
        saved = (self.in_contract, self.old_state, self.contract_env)
        self.in_contract = True
        self.contract_env = use_env
        if old_state is not None:
            self.old_state = old_state
        base_pc = len(tmp.pc)
        try:
            res = self.eval(tmp, node)
        finally:
            self.in_contract, self.old_state, self.contract_env = saved
        # definitional facts discovered while evaluating are valid on the real path too
        for s2, _ in res:
            for f in s2.facts:
                st.fact(f)
                if sink is not None:
                    sink.fact(f)
        if want_bool:
            parts = []
            for s2, v in res:
                if not normal(s2):
                    raise OutsideSubset('contract expression raises: ' + src)
                cond = z3.And(list(s2.pc[base_pc:])) if len(s2.pc) > base_pc else z3.BoolVal(True)
                parts.append(z3.And(cond, self.truthy(s2, v)))
            return parts[0] if len(parts) == 1 else z3.Or(parts)
        acc = None
        for s2, v in reversed(res):
            if not normal(s2):
                raise OutsideSubset('contract expression raises: ' + src)
            cond = z3.And(list(s2.pc[base_pc:])) if len(s2.pc) > base_pc else z3.BoolVal(True)
            acc = v if acc is None else merge(cond, v, acc, self.classes)
        return acc

    def contract_special(self, st, e):
        name = e.func.id
        if name == 'old':
            if self.old_state is None:
                raise OutsideSubset('old() without a pre-state')
            tmp = self.old_state.copy()
            if self.contract_env is not None:
                # a callee's contract at a call site: its own parameter bindings
                tmp.env = dict(st.env)
            else:
                tmp.env = dict(self.entry_env or {})
                # names in old() refer to entry values of parameters
                for k, v in st.env.items():
                    if k not in tmp.env:
                        tmp.env[k] = v
            tmp.pc = st.pc
            tmp.facts = st.facts
            res = self.eval(tmp, e.args[0])
            out = []
            for s2, v in res:
                s3 = st.copy()
                s3.pc = s2.pc
                s3.facts = s2.facts
                out.append((s3, v))
            return out
        if name == 'slice_step':
            # lemma of sequences (valid for every s, i): 0 <= i < len(s)  ==>  s[:i+1] == s[:i] + [s[i]]
            outs = []
            for s2, (sq, i) in self.eval_many(st, e.args):
                sq, i = self.need_value(sq), self.need_value(i)
                if isinstance(sq.ty, TSeq) and sq.ty.elem is not TBottom:
                    n = z3.Length(sq.t)
                    lem = z3.Implies(z3.And(i.t >= 0, i.t < n),
                                     z3.SubSeq(sq.t, 0, i.t + 1) == z3.Concat(z3.SubSeq(sq.t, 0, i.t), z3.SubSeq(sq.t, i.t, 1)))
                    s2.fact(lem)
                    st.fact(lem)
                outs.append((s2, SV(TBool, z3.BoolVal(True))))
            return outs
        if name == 'entry':
            ordn = getattr(self, 'cur_loop_ord', None)
            ent = getattr(self, 'loop_entries', {}).get(ordn)
            if ent is None:
                raise OutsideSubset('entry() outside a for-loop invariant')
            tmp = ent.copy()
            tmp.pc = st.pc
            tmp.facts = st.facts
            res = self.eval(tmp, e.args[0])
            out = []
            for s2, v in res:
                s3 = st.copy()
                s3.pc = s2.pc
                s3.facts = s2.facts
                out.append((s3, v))
            return out
        if name == 'updated':
            outs = []
            for s2, (m, k, v) in self.eval_many(st, e.args):
                m = self.need_value(m)
                outs.append((s2, self.map_set(m, self.need_value(k), self.need_value(v))))
            return outs
        if name == 'removed':
            # removed(m, k): the mapping m without key k (insertion order of the others kept)
            outs = []
            for s2, (m, k) in self.eval_many(st, e.args):
                m, k = self.need_value(m), self.need_value(k)
                kk = box(coerce(k, m.ty.k, self.classes))
                ks = m.ty.keys(m.t)
                from .types import sunit
                i = z3.IndexOf(ks, sunit(m.ty.k, kk), 0)
                n = z3.Length(ks)
                nk = z3.If(i < 0, ks, z3.Concat(z3.SubSeq(ks, 0, i), z3.SubSeq(ks, i + 1, n - i - 1)))
                outs.append((s2, SV(m.ty, m.ty.mk(nk, m.ty.vals(m.t)))))
            return outs
        if name == 'keys':
            outs = []
            for s2, v in self.eval(st, e.args[0]):
                v = self.need_value(v)
                if isinstance(v.ty, TRef) and v.ty.cls.startswith('dict:'):
                    v = self.read_field(s2, v, v.ty.cls, 'items')
                if not isinstance(v.ty, TMap):
                    raise OutsideSubset('keys() of ' + str(v.ty))
                outs.append((s2, SV(TSeq(v.ty.k), v.ty.keys(v.t))))
            return outs
        if name == 'val':
            outs = []
            for s2, v in self.eval(st, e.args[0]):
                v = self.need_value(v)
                outs.append((s2, unbox(v.ty.inner, v.ty.val(v.t)) if isinstance(v.ty, TOpt) else v))
            return outs
        if name == 'orelse':
            outs = []
            for s2, (v, d) in self.eval_many(st, e.args):
                v = self.need_value(v)
                if isinstance(v.ty, TOpt):
                    inner = unbox(v.ty.inner, v.ty.val(v.t))
                    outs.append((s2, merge(v.ty.is_none(v.t), d, inner, self.classes)))
                elif v.ty == TNone:
                    outs.append((s2, d))
                else:
                    outs.append((s2, v))
            return outs
        if name == 'implies':
            outs = []
            for s2, a in self.eval(st, e.args[0]):
                ta = self.truthy(s2, a)
                if z3.is_false(z3.simplify(ta)):
                    outs.append((s2, SV(TBool, z3.BoolVal(True))))     # consequent may be ill-typed here
                    continue
                try:
                    for s3, b in self.eval(s2, e.args[1]):
                        outs.append((s3, SV(TBool, z3.Implies(ta, self.truthy(s3, b)))))
                except PathEnds:
                    raise OutsideSubset('ill-typed consequent of implies() in a contract clause')
            return outs
        if name in ('forall', 'exists'):
            # forall(lambda i: P(i))  - i ranges over int;  forall(T, lambda x: ..) not needed
            lam = e.args[-1]
            if not isinstance(lam, ast.Lambda):
                raise OutsideSubset('quantifier needs a lambda')
            if name == 'exists' and self.exists_witness and all(a.arg in self.exists_witness for a in lam.args.args):
                # proving an existential: instantiate it with the witness given in the contract
                s2 = st.copy()
                for a in lam.args.args:
                    s2.env[a.arg] = self.exists_witness[a.arg]
                body = self.eval_bool_total(s2, lam.body)
                for f in s2.facts:
                    st.fact(f)
                return [(st, SV(TBool, body))]
            vars_ = []
            s2 = st.copy()
            tys = [parse_type(a.value) if isinstance(a, ast.Constant) else None for a in e.args[:-1]]
            for n, a in enumerate(lam.args.args):
                ty = tys[n] if n < len(tys) and tys[n] is not None else TInt
                v = fresh(ty, a.arg)
                vars_.append(v)
                s2.env[a.arg] = v
            body = self.eval_bool_total(s2, lam.body)
            for f in s2.facts:
                if not any(_mentions(f, v.t) for v in vars_):
                    st.fact(f)
            zvars = [v.t for v in vars_]
            q = z3.ForAll(zvars, body) if name == 'forall' else z3.Exists(zvars, body)
            return [(st, SV(TBool, q))]
        if name == 'fresh':
            outs = []
            for s2, v in self.eval(st, e.args[0]):
                v = self.need_value(v)
                if self.old_state is None:
                    raise OutsideSubset('fresh() without pre-state')
                if isinstance(v.ty, TOpt):
                    outs.append((s2, SV(TBool, z3.Or(v.ty.is_none(v.t), v.ty.val(v.t) >= self.old_state.alloc))))
                else:
                    outs.append((s2, SV(TBool, v.t >= self.old_state.alloc)))
            return outs
        if name == 'all_new':
            # every object of the class allocated since the pre-state satisfies the predicate
            if self.old_state is None:
                raise OutsideSubset('all_new() without a pre-state')
            cls = self.classes.canon(e.args[0].value)
            lam = e.args[1]
            r = fresh(TRef(cls), lam.args.args[0].arg)
            s2 = st.copy()
            s2.env[lam.args.args[0].arg] = r
            body = self.eval_bool_total(s2, lam.body)
            for f in s2.facts:
                if not _mentions(f, r.t):
                    st.fact(f)
            rng = z3.And(r.t >= self.old_state.alloc, r.t < st.alloc, self.isinstance_term(st, r, cls))
            return [(st, SV(TBool, z3.ForAll([r.t], z3.Implies(rng, body))))]
        if name == 'invariant_of':
            # the class invariants of another object (representation invariant as a predicate)
            outs = []
            for s2, v in self.eval(st, e.args[0]):
                v = self.need_value(v)
                terms = []
                for cl in self.classes.invariants(v.ty.cls):
                    tmp = s2.copy()
                    tmp.env = dict(s2.env)
                    tmp.env['self'] = v
                    terms.append(self.eval_bool_total(tmp, parse_expr(cl.expr)))
                    for f in tmp.facts:
                        s2.fact(f)
                outs.append((s2, SV(TBool, z3.And(terms) if terms else z3.BoolVal(True))))
            return outs
        if name in ('none_slot', 'empty_list_slot'):
            ty = parse_type('Slot')
            if name == 'none_slot':
                return [(st, SV(ty, ty.inject('none')))]
            lt = ty.alt('lst')
            return [(st, SV(ty, ty.inject('lst', z3.Empty(lt.sort()))))]
        if name == 'lst_item':
            ty = parse_type('MItem')
            outs = []
            for s2, v in self.eval(st, e.args[0]):
                v = self.need_value(v)
                lt = ty.alt('lst')
                if isinstance(v.ty, TSeq) and v.ty.elem is TBottom:
                    outs.append((s2, SV(ty, ty.inject('lst', z3.Empty(lt.sort())))))
                else:
                    outs.append((s2, SV(ty, ty.inject('lst', coerce(v, lt, self.classes).t))))
            return outs
        if name == 'is_alt':
            outs = []
            for s2, v in self.eval(st, e.args[0]):
                v = self.need_value(v)
                outs.append((s2, SV(TBool, v.ty.is_tag(e.args[1].value, v.t))))
            return outs
        if name == 'alt':
            outs = []
            for s2, v in self.eval(st, e.args[0]):
                v = self.need_value(v)
                tag = e.args[1].value
                outs.append((s2, unbox(v.ty.alt(tag), v.ty.get(tag, v.t))))
            return outs
        if name == 'cast':
            outs = []
            for s2, v in self.eval(st, e.args[0]):
                v = self.need_value(v)
                cls = self.classes.canon(e.args[1].value)
                outs.append((s2, SV(TRef(cls), v.t)))
            return outs
        if name == 'ext':
            # ext('socket.AF_INET'): the constant of an external module declared with api.ext_value
            return [(st, self.need_value(Entity('ext', e.args[0].value)))]
        if name == 'same_class':
            outs = []
            for s2, (a, b) in self.eval_many(st, e.args):
                outs.append((s2, SV(TBool, self.cls_of(self.need_value(a).t) == self.cls_of(self.need_value(b).t))))
            return outs
        if name == 'isclass':
            # isclass(x, 'module.Class'): exact dynamic class
            outs = []
            for s2, v in self.eval(st, e.args[0]):
                cls = self.classes.canon(e.args[1].value)
                outs.append((s2, SV(TBool, self.exact_class_term(s2, self.need_value(v), cls))))
            return outs
        if name == 'isa':
            outs = []
            for s2, v in self.eval(st, e.args[0]):
                cls = self.classes.canon(e.args[1].value)
                v = self.need_value(v)
                outs.append((s2, SV(TBool, self.isinstance_term(s2, v, cls))))
            return outs
        if name == 'is_prefix':
            # is_prefix(a, b): sequence a is an initial segment of sequence b
            outs = []
            for s2, (a, b) in self.eval_many(st, e.args):
                a, b = self.need_value(a), self.need_value(b)
                if isinstance(b.ty, TSeq) and b.ty.elem is TBottom:
                    outs.append((s2, SV(TBool, z3.Length(a.t) == 0)))
                elif isinstance(a.ty, TSeq) and a.ty.elem is TBottom:
                    outs.append((s2, SV(TBool, z3.BoolVal(True))))
                else:
                    outs.append((s2, SV(TBool, z3.PrefixOf(a.t, coerce(b, a.ty, self.classes).t))))
            return outs
        if name == 'unchanged':
            # unchanged(obj.field): same value as in the pre-state
            cur = self.eval(st, e.args[0])
            o = ast.Call(func=ast.Name(id='old', ctx=ast.Load()), args=[e.args[0]], keywords=[])
            ast.copy_location(o, e)
            ast.fix_missing_locations(o)
            old = self.contract_special(st, o)
            return [(cur[0][0], SV(TBool, self.py_eq(st, self.need_value(cur[0][1]), self.need_value(old[0][1]))))]
        return None

    def eval_bool_total(self, st, node):
        base = len(st.pc)
        res = self.eval(st, node)
        parts = []
        for s2, v in res:
            cond = z3.And(list(s2.pc[base:])) if len(s2.pc) > base else z3.BoolVal(True)
            parts.append(z3.And(cond, self.truthy(s2, v)))
            for f in s2.facts:
                st.fact(f)
        return parts[0] if len(parts) == 1 else z3.Or(parts)

    # ------------------------------------------------------------------
    # specification functions and primitives
    # ------------------------------------------------------------------
    def spec_lookup(self, name):
        if name in api.PRIMS:
            return Entity('prim', name)
        for mod in api.SPEC_MODULES:
            f = getattr(mod, name, None)
            if f is not None and inspect.isfunction(f) and f.__module__ == mod.__name__:
                return Entity('spec', (mod, name))
            if f is not None and isinstance(f, (int, str, bool, tuple)) and not inspect.isfunction(f):
                if name.isupper() or name.startswith('K_'):
                    return self.const_value(f)
        return None

    def spec_ast(self, mod, name):
        key = (mod.__name__, name)
        if key not in self._spec_asts:
            src = inspect.getsource(mod)
            tree = ast.parse(src)
            for n in tree.body:
                if isinstance(n, ast.FunctionDef):
                    self._spec_asts[(mod.__name__, n.name)] = n
        return self._spec_asts[key]

    def call_spec(self, st, data, args, kw):
        mod, name = data
        fnode = self.spec_ast(mod, name)
        pyf = getattr(mod, name)
        rec_sig = getattr(pyf, '_pyvc_recursive', None)
        args = [a if isinstance(a, Entity) else self.need_value(a) for a in args]
        params = [a.arg for a in fnode.args.args]
        if len(args) + len(kw) != len(params):
            raise OutsideSubset('spec function %s arity' % name)
        bound = dict(zip(params, args))
        bound.update(kw)
        if rec_sig is not None and self.fn_name in getattr(pyf, '_pyvc_inline_in', ()):
            rec_sig = None       # opaque elsewhere, an ordinary (inlined) definition while verifying this function
        if rec_sig is not None:
            return self.call_recursive_spec(st, mod, name, fnode, rec_sig, bound, params)
        return self.inline_spec(st, mod, fnode, bound)

    def inline_spec(self, st, mod, fnode, bound):
        inner = State()
        inner.env = dict(bound)
        inner.heap = dict(st.heap)
        inner.alloc = st.alloc
        inner.alloc0 = st.alloc0
        inner.facts = st.facts
        saved = (self.cur_module, self.spec_env, self.contract, self.loop_ordinals, self.try_stack)
        self.spec_depth += 1
        self.spec_env = mod
        self.contract = None
        self.loop_ordinals = {}
        self.try_stack = []
        try:
            ends = self.exec_block(inner, fnode.body)
        finally:
            self.spec_depth -= 1
            self.cur_module, self.spec_env, self.contract, self.loop_ordinals, self.try_stack = saved
        acc = None
        for e in reversed(ends):
            if e.flow == 'return':
                v = e.ret
            elif e.flow == 'normal':
                v = NONE
            else:
                raise OutsideSubset('specification function %s raises' % fnode.name)
            for f in e.facts:
                st.fact(f)
            cond = z3.And(list(e.pc)) if e.pc else z3.BoolVal(True)
            acc = v if acc is None else merge(cond, v, acc, self.classes)
        if acc is None:
            raise OutsideSubset('specification function without result')
        return acc

    def call_recursive_spec(self, st, mod, name, fnode, sig, bound, params):
        """Uninterpreted application + one-level unfolding of the definition as a fact.
        The heap arrays the body reads are extra arguments of the uninterpreted function."""
        ptypes, rty = sig
        ptypes = [parse_type(t) for t in ptypes]
        rty = parse_type(rty)
        terms = []
        for p, ty in zip(params, ptypes):
            terms.append(box(self.coerce(st, bound[p], ty)))
        typed = {p: unbox(ty, t) for p, ty, t in zip(params, ptypes, terms)}
        key = (mod.__name__, name)
        if key in self._spec_deps and self._spec_deps[key] is None:
            # re-entered while discovering the footprint of this very function
            return fresh(rty, 'probe')
        if key not in self._spec_deps:
            # discover the heap footprint once (all paths of the body are evaluated)
            self._spec_deps[key] = None
            saved = self.heap_reads
            self.heap_reads = set()
            self.rec_depth += 10
            try:
                probe = st.copy()
                self.inline_spec(probe, mod, fnode, typed)
                deps = set(self.heap_reads)
            finally:
                self.rec_depth -= 10
                self.heap_reads = saved
            self._spec_deps[key] = sorted(deps, key=str)
        deps = self._spec_deps[key]
        if self.heap_reads is not None:
            self.heap_reads.update(deps)
        harrs = []
        for k in deps:
            if k == '$cls':
                continue
            else:
                _, fty = self.classes.field(k[0], k[1])
                harrs.append(self.heap_array(st, k, fty))
        allterms = terms + harrs
        f = strops.ufun('spec_' + name, *([t.sort() for t in allterms] + [rty.sort()]))
        app = f(*allterms)
        res = unbox(rty, app)
        reveal = getattr(getattr(mod, name), '_pyvc_reveal', None)
        if reveal is not None and self.fn_name not in reveal:
            return res
        if self.rec_depth == 0 or (reveal is not None and self.rec_depth < 3):
            self.rec_depth += 1
            try:
                body = self.inline_spec(st, mod, fnode, typed)
            finally:
                self.rec_depth -= 1
            bt = box(coerce(body, rty, self.classes))
            st.fact(bt == app)
            if rty == TBool and reveal is not None:
                from .state import has_quantifier as _has_q
                if _has_q(bt):
                    # the direction that USES the application, in a form the instantiation of
                    # quantified assumptions understands (a guarded conjunction of foralls)
                    st.fact(z3.Implies(app, bt))
        return res

    def call_prim(self, st, name, args):
        p = api.PRIMS[name]
        ptys, rty = parse_sig(p.sig)
        args = [self.need_value(a) for a in args]
        if len(args) != len(ptys):
            raise OutsideSubset('primitive %s arity' % name)
        cargs = [self.coerce(st, a, t) for a, t in zip(args, ptys)]
        terms = [box(a) for a in cargs]
        if p.smt is not None:
            return unbox(rty, p.smt(*terms))
        f = strops.ufun('prim_' + name, *([t.sort() for t in terms] + [rty.sort()]))
        app = f(*terms)
        res = unbox(rty, app)
        if p.axioms and self.prim_depth == 0:
            self.prim_depth += 1
            env = dict(zip(p.args or [], cargs))
            env['result'] = res
            for ax in p.axioms:
                tmp = st.copy()
                tmp.env = env
                saved = self.in_contract
                self.in_contract = True
                try:
                    t = self.eval_bool_total(tmp, parse_expr(ax))
                finally:
                    self.in_contract = saved
                for fct in tmp.facts:
                    st.fact(fct)
                st.fact(t)
            self.prim_depth -= 1
        return res


def parse_sig(sig):
    left, right = sig.split('->')
    ptys = [parse_type(x) for x in _split_top(left)] if left.strip() else []
    return ptys, parse_type(right)


def _split_top(s):
    out, depth, cur = [], 0, ''
    for ch in s:
        if ch == '[':
            depth += 1
        elif ch == ']':
            depth -= 1
        if ch == ',' and depth == 0:
            out.append(cur)
            cur = ''
        else:
            cur += ch
    if cur.strip():
        out.append(cur)
    return out


def _mentions(term, c):
    from .symex_call import contains_const
    return contains_const(term, c)
