"""Re-read the real source of ZConfig on every run.

Qualified names are relative to the package: ``substitution._split``,
``cfgparser.ZConfigParser.parse``, ``components.logger.datatypes.logging_level``,
``__init__.ConfigurationError.__init__`` (the package module itself is called
``__init__``; exception classes are also reachable as ``ZConfig.X``).
"""
import ast
import hashlib
import os


def repo_root():
    return os.environ.get('VERIF_REPO', '/repo')


class FuncSrc:
    def __init__(self, qualname, module, cls, node, file, text):
        self.qualname = qualname
        self.module = module
        self.cls = cls
        self.node = node
        self.file = file
        self.lineno = node.lineno
        self.end_lineno = node.end_lineno
        seg = ast.get_source_segment(text, node) or ''
        self.sha = hashlib.sha256(seg.encode()).hexdigest()[:16]
        self.segment = seg

    def describe(self):
        return {'name': self.qualname, 'file': self.file,
                'lines': [self.lineno, self.end_lineno], 'sha256_16': self.sha}


class ClassSrc:
    def __init__(self, qualname, module, node):
        self.qualname = qualname      # module.Class
        self.module = module
        self.node = node
        self.name = node.name
        self.bases = node.bases       # ast expressions
        self.methods = {}
        self.class_attrs = {}         # name -> ast value (simple assignments)
        for st in node.body:
            if isinstance(st, (ast.FunctionDef,)):
                self.methods[st.name] = st
            elif isinstance(st, ast.Assign) and len(st.targets) == 1 \
                    and isinstance(st.targets[0], ast.Name):
                self.class_attrs[st.targets[0].id] = st.value


class Module:
    def __init__(self, name, file, text):
        self.name = name
        self.file = file
        self.text = text
        self.tree = ast.parse(text, filename=file)
        self.functions = {}
        self.classes = {}
        self.imports = {}     # local name -> dotted target
        self.globals = {}     # name -> ast value (simple module-level assignments)
        for st in self.tree.body:
            self._scan(st)

    def _scan(self, st):
        if isinstance(st, ast.FunctionDef):
            self.functions[st.name] = st
        elif isinstance(st, ast.ClassDef):
            self.classes[st.name] = ClassSrc(self.name + '.' + st.name, self.name, st)
        elif isinstance(st, ast.Import):
            for a in st.names:
                self.imports[(a.asname or a.name.split('.')[0])] = \
                    a.name if a.asname else a.name.split('.')[0]
        elif isinstance(st, ast.ImportFrom):
            for a in st.names:
                self.imports[a.asname or a.name] = (st.module or '') + '.' + a.name
        elif isinstance(st, ast.Assign) and len(st.targets) == 1 \
                and isinstance(st.targets[0], ast.Name):
            self.globals[st.targets[0].id] = st.value
        elif isinstance(st, ast.If):
            # e.g. platform switches: scan both arms (later definitions win)
            for s in st.body + st.orelse:
                self._scan(s)


class Source:
    """All modules of the ZConfig package of the tree under test."""

    def __init__(self, root=None):
        self.root = root or repo_root()
        self.pkgdir = os.path.join(self.root, 'src', 'ZConfig')
        self._mods = {}

    def module(self, name):
        if name not in self._mods:
            rel = name.replace('.', os.sep)
            cands = [os.path.join(self.pkgdir, rel + '.py'),
                     os.path.join(self.pkgdir, rel, '__init__.py')]
            if name == '__init__':
                cands = [os.path.join(self.pkgdir, '__init__.py')]
            for c in cands:
                if os.path.isfile(c):
                    with open(c, encoding='utf-8') as f:
                        text = f.read()
                    self._mods[name] = Module(name, c, text)
                    break
            else:
                raise KeyError('no module ' + name)
        return self._mods[name]

    def split_qual(self, qualname):
        """Return (module, rest parts)."""
        parts = qualname.split('.')
        for i in range(len(parts), 0, -1):
            mod = '.'.join(parts[:i])
            try:
                m = self.module(mod)
            except KeyError:
                continue
            return m, parts[i:]
        raise KeyError(qualname)

    def func(self, qualname):
        m, rest = self.split_qual(qualname)
        if len(rest) == 1:
            node = m.functions.get(rest[0])
            if node is None:
                raise KeyError(qualname)
            return FuncSrc(qualname, m.name, None, node, m.file, m.text)
        if len(rest) == 2:
            c = m.classes.get(rest[0])
            if c is None or rest[1] not in c.methods:
                raise KeyError(qualname)
            return FuncSrc(qualname, m.name, c.qualname, c.methods[rest[1]], m.file, m.text)
        raise KeyError(qualname)

    def cls(self, qualname):
        m, rest = self.split_qual(qualname)
        if len(rest) != 1 or rest[0] not in m.classes:
            raise KeyError(qualname)
        return m.classes[rest[0]]

    def resolve_base(self, cls, base_expr):
        """Resolve a base-class expression of `cls` to a class qualname or a
        builtin marker ('builtin:Exception')."""
        m = self.module(cls.module)
        dotted = _dotted(base_expr)
        if dotted is None:
            return None
        return self.resolve_name(m, dotted)

    def resolve_name(self, m, dotted):
        """Resolve a dotted name used inside module m to 'module.Name' within
        the package, or 'builtin:<name>' / 'ext:<dotted>'."""
        parts = dotted.split('.')
        head = parts[0]
        if head in m.classes and len(parts) == 1:
            return m.name + '.' + head
        if head in m.functions and len(parts) == 1:
            return m.name + '.' + head
        if head in m.imports:
            target = m.imports[head]
            full = target.split('.') + parts[1:]
        elif len(parts) == 1:
            if head in m.globals:
                return m.name + '.' + head
            return 'builtin:' + head
        else:
            full = parts
        if full[0] == 'ZConfig':
            rest = full[1:]
            if not rest:
                return '__init__'
            # ZConfig.X where X is defined in the package __init__
            try:
                init = self.module('__init__')
                if rest[0] in init.classes or rest[0] in init.functions or rest[0] in init.globals:
                    # loader re-exports (loadConfig = ZConfig.loader.loadConfig) stay in __init__
                    return '__init__.' + '.'.join(rest)
            except KeyError:
                pass
            return '.'.join(rest)
        return 'ext:' + '.'.join(full)

    def mro(self, cls_qual):
        """Linearisation (C3 for the simple hierarchies here) as qualnames;
        builtin bases appear as 'builtin:Name'."""
        def lin(q):
            if q.startswith('builtin:') or q.startswith('ext:'):
                return [q]
            c = self.cls(q)
            bases = [self.resolve_base(c, b) for b in c.bases]
            bases = [b for b in bases if b]
            seqs = [lin(b) for b in bases] + [list(bases)]
            res = [q]
            while True:
                seqs = [s for s in seqs if s]
                if not seqs:
                    return res
                for s in seqs:
                    cand = s[0]
                    if not any(cand in t[1:] for t in seqs):
                        break
                else:
                    raise ValueError('inconsistent MRO for ' + q)
                res.append(cand)
                for s in seqs:
                    if s and s[0] == cand:
                        del s[0]
        return lin(cls_qual)

    def is_subclass(self, sub, sup):
        if sub == sup:
            return True
        try:
            return sup in self.mro(sub)
        except KeyError:
            return False

    def find_method(self, cls_qual, name):
        """First class in the MRO defining the method: (class qualname, node)."""
        for q in self.mro(cls_qual):
            if q.startswith('builtin:') or q.startswith('ext:'):
                continue
            c = self.cls(q)
            if name in c.methods:
                return q, c.methods[name]
        return None, None

    def find_class_attr(self, cls_qual, name):
        for q in self.mro(cls_qual):
            if q.startswith('builtin:') or q.startswith('ext:'):
                continue
            c = self.cls(q)
            if name in c.class_attrs:
                return q, c.class_attrs[name]
        return None, None


def _dotted(e):
    if isinstance(e, ast.Name):
        return e.id
    if isinstance(e, ast.Attribute):
        b = _dotted(e.value)
        return None if b is None else b + '.' + e.attr
    return None


dotted = _dotted
