"""Symbolic executor, part 3: calls, builtins, methods of built-in types."""
import ast

import z3

from . import api, strops
from .state import ExcInfo, Place
from .symex import Entity, normal
from .types import snth, sunit
from .types import (TBool, TFun, TInt, TMap, TNone, TOpaque, TOpt, TRef, TSeq, TStr,
                    TTuple, TUnion, join, parse_type)
from .values import (NONE, SV, OutsideSubset, TBottom, TypeMismatch, box, coerce, empty_map,
                     fresh, merge, mk_bool, mk_int, mk_str, seq_literal, unbox)

CONTRACT_BUILTINS = frozenset(('old', 'val', 'implies', 'forall', 'exists', 'fresh', 'keys', 'updated', 'removed', 'orelse',
                              'is_alt', 'alt', 'cast', 'isa', 'isclass', 'invariant_of', 'unchanged', 'entry', 'is_prefix'))
MUTATORS = ('append', 'extend', 'update', 'insert', 'remove', 'pop', 'setdefault', 'clear', 'reverse')


class CallMixin:
    def eval_Call(self, st, e):
        f = e.func
        # old(...) / quantifier forms in contract expressions
        if isinstance(f, ast.Name) and (self.in_contract or self.spec_depth > 0) and \
                (f.id not in st.env or f.id in CONTRACT_BUILTINS):
            # (a contract builtin called as a function wins over a code local of the same name,
            # e.g. a loop variable `val`)
            sp = self.contract_special(st, e)
            if sp is not None:
                return sp
        # in-place mutation of containers needs the location, not the value
        if isinstance(f, ast.Attribute) and f.attr in MUTATORS:
            locs = self.lvalue(st, f.value)
            out = []
            for s2, loc in locs:
                if not normal(s2):
                    out.append((s2, None))
                    continue
                if isinstance(loc, SV) and self.dict_place(loc) is not None:
                    loc = self.dict_place(loc)
                probe = loc if isinstance(loc, Place) else loc
                is_cont = isinstance(probe, Place) or (
                    isinstance(probe, SV) and (isinstance(probe.ty, (TSeq, TMap)) or (
                        isinstance(probe.ty, TRef) and (probe.ty.cls.startswith('list:') or probe.ty.cls.startswith('dict:')))))
                if is_cont:
                    for s3, args, kw in self.eval_args(s2, e):
                        if not normal(s3):
                            out.append((s3, None))
                            continue
                        out.extend(self.mutate(s3, loc, f.attr, args, e, f.value))
                else:
                    for s3, args, kw in self.eval_args(s2, e):
                        if not normal(s3):
                            out.append((s3, None))
                            continue
                        out.extend(self.call_value(s3, self.getattr_value(s3, self.need_value(loc), f.attr, f), args, kw, e))
            return out
        if isinstance(f, ast.Call) and isinstance(f.func, ast.Name) and f.func.id == 'getattr' \
                and len(f.args) == 2 and 'getattr' not in st.env:
            dyn = self.dynamic_getattr_call(st, f, e)
            if dyn is not None:
                return dyn
        out = []
        for s2, fn in self.eval(st, f):
            if not normal(s2):
                out.append((s2, None))
                continue
            for s3, args, kw in self.eval_args(s2, e):
                if not normal(s3):
                    out.append((s3, None))
                    continue
                self.ghost_asserts_at_call(s3, e, args)
                out.extend(self.call_value(s3, fn, args, kw, e))
        return out

    def ghost_asserts_at_call(self, st, e, args, target=None):
        c = self.contract
        if c is None or not c.asserts or self.spec_depth > 0 or self.in_contract or self.inline_depth > 0:
            return
        try:
            target = target or ast.unparse(e.func)
        except Exception:
            return
        for a in c.asserts:
            if a.call is not None and a.call == target:
                self.asserts_seen.add(id(a))
                vals = [self.need_value(x) for x in args if not isinstance(x, Entity)]
                tup = SV(TTuple([v.ty for v in vals]), tuple(vals))
                t = self.eval_contract_expr(st, a.expr, {'args': tup}, self.pre_state)
                self.oblige(st, t, 'assert', a.label, carries=a.carries, node=e,
                            info={'claim': 'at call of %s: %s' % (target, a.expr)})

    def eval_args(self, st, e):
        """-> list of (state, [positional SVs], {kw: SV})"""
        exprs = []
        shape = []
        for a in e.args:
            if isinstance(a, ast.Starred):
                exprs.append(a.value)
                shape.append('star')
            else:
                exprs.append(a)
                shape.append('pos')
        for k in e.keywords:
            if k.arg is None:
                raise OutsideSubset('**kwargs')
            exprs.append(k.value)
            shape.append(k.arg)
        out = []
        for s, vals in self.eval_many(st, exprs):
            if not normal(s):
                out.append((s, None, None))
                continue
            pos, kw = [], {}
            for sh, v in zip(shape, vals):
                if sh == 'pos':
                    pos.append(v)
                elif sh == 'star':
                    v = self.need_value(v)
                    if not isinstance(v.ty, TTuple):
                        raise OutsideSubset('*args of ' + str(v.ty))
                    pos.extend(v.t)
                else:
                    kw[sh] = v
            out.append((s, pos, kw))
        return out

    # ------------------------------------------------------------------
    def call_value(self, st, fn, args, kw, node):
        if isinstance(fn, Entity):
            k = fn.kind
            if k == 'builtin':
                return self.call_builtin(st, fn.data, args, kw, node)
            if k == 'method':
                return self.call_method(st, fn.self_sv, fn.data, args, kw, node)
            if k == 'func':
                return self.call_function(st, fn.data, args, kw, node)
            if k == 'class':
                return self.construct(st, fn.data, args, kw, node)
            if k == 'classattr':
                cls, name = fn.data
                if cls == 'builtin:dict' and name == '__init__' and args:
                    # dict.__init__(self): the mapping part of a dict-derived object starts empty
                    me = self.need_value(args[0])
                    dp = self.dict_place(me)
                    if dp is not None:
                        fld = dp.root[2][1]
                        self.write_field(st, me, me.ty.cls, fld, SV(TMap(TBottom, TBottom), None), node)
                    return [(st, NONE)]
                if cls.startswith('builtin:') and name == '__init__':
                    return [(st, NONE)]
                if not args:
                    raise OutsideSubset('unbound method call without self')
                return self.call_method(st, self.need_value(args[0]), name, args[1:], kw, node, static_cls=cls)
            if k == 'ext':
                return self.call_ext(st, fn.data, args, kw, node)
            if k == 'spec':
                return [(st, self.call_spec(st, fn.data, args, kw))]
            if k == 'prim':
                return [(st, self.call_prim(st, fn.data, args))]
            if k == 'lambda':
                return self.call_lambda(st, fn.data, args, node)
            if k == 'localfunc':
                return self.call_localfunc(st, fn.data, args, kw, node)
            if k == 'global':
                return self.call_named(st, fn.data, args, kw, node)
            if k == 'globalattr':
                return self.call_named(st, fn.data[0] + '.' + fn.data[1], args, kw, node)
            raise OutsideSubset('call of ' + repr(fn))
        fn = self.need_value(fn)
        if isinstance(fn.ty, TOpt):
            fn = self.unwrap_opt(st, fn, node, 'call')
        if isinstance(fn.ty, TFun):
            c = api.REGISTRY.get('fun:' + fn.ty.name)
            if c is None:
                raise OutsideSubset('no assumed contract for callable ' + fn.ty.name)
            return self.apply_contract(st, c, [fn] + list(args), kw, node, self_sv=None)
        if isinstance(fn.ty, TRef):
            return self.call_method(st, fn, '__call__', args, kw, node)
        raise OutsideSubset('call of value of type ' + str(fn.ty))

    def call_named(self, st, name, args, kw, node):
        c = api.REGISTRY.get(name)
        if c is None:
            raise OutsideSubset('no contract for ' + name)
        return self.apply_contract(st, c, args, kw, node)

    def call_ext(self, st, dotted_name, args, kw, node):
        if dotted_name == 'copy.copy':
            return self.shallow_copy(st, self.need_value(args[0]), node)
        if dotted_name == 'collections.OrderedDict' and not args and not kw:
            return [(st, SV(TMap(TBottom, TBottom), None))]       # an empty insertion-ordered mapping
        c = api.REGISTRY.get(dotted_name)
        if c is None:
            raise OutsideSubset('no assumed contract for external ' + dotted_name)
        return self.apply_contract(st, c, args, kw, node)

    def shallow_copy(self, st, v, node):
        if isinstance(v.ty, TOpt):
            a = st.copy()
            a.assume(v.ty.is_none(v.t))
            outs = []
            if self.feasible(a):
                outs.append((a, v))
            st.assume(z3.Not(v.ty.is_none(v.t)))
            if self.feasible(st):
                inner = unbox(v.ty.inner, v.ty.val(v.t))
                for s2, r in self.shallow_copy(st, inner, node):
                    outs.append((s2, coerce(r, v.ty, self.classes) if r is not None else None))
            return outs
        if isinstance(v.ty, (TSeq, TMap, TTuple)) or v.ty in (TStr, TInt, TBool, TNone):
            return [(st, v)]          # value semantics: a value IS a copy
        if isinstance(v.ty, TUnion):
            return [(st, v)]
        if isinstance(v.ty, TRef):
            cls = v.ty.cls
            new = self.new_object(st, cls, tag=False)
            # same dynamic class and same field values
            st.assume(self.cls_of(new.t) == self.cls_of(v.t))
            for q in self.classes.subclasses(cls):
                for f, (dc, fty) in self.classes.all_fields(q).items():
                    arr = self.heap_array(st, (dc, f), fty)
                    st.heap[(dc, f)] = z3.Store(arr, new.t, z3.Select(arr, v.t))
            return [(st, new)]
        raise OutsideSubset('copy.copy of ' + str(v.ty))

    def call_localfunc(self, st, fnode, args, kw, node):
        """Call of a nested function: its body runs with the enclosing locals visible (closure);
        names it assigns are its own and disappear afterwards."""
        params = [a.arg for a in fnode.args.args]
        if len(args) != len(params) or kw:
            raise OutsideSubset('nested function call shape')
        if self.inline_depth > 6:
            raise OutsideSubset('inline depth')
        outer = dict(st.env)
        inner = st
        inner.env = dict(outer)
        inner.env.update(zip(params, args))
        own = set(params) | self.assigned_names(fnode.body)
        self.inline_depth += 1
        saved_lo, saved_contract = self.loop_ordinals, self.contract
        self.loop_ordinals, self.contract = {}, None
        try:
            ends = self.exec_block(inner, fnode.body)
        finally:
            self.inline_depth -= 1
            self.loop_ordinals, self.contract = saved_lo, saved_contract
        out = []
        for e in ends:
            env = dict(e.env)
            for n in own:
                if n in outer:
                    env[n] = outer[n]
                else:
                    env.pop(n, None)
            e.env = env
            if e.flow == 'return':
                r = e.ret
                e.flow, e.ret = 'normal', None
                out.append((e, r))
            elif e.flow == 'normal':
                out.append((e, NONE))
            elif e.flow == 'raise':
                out.append((e, None))
            else:
                raise OutsideSubset('break/continue escaping a nested function')
        return out

    def call_lambda(self, st, lam, args, node):
        if len(lam.args.args) != len(args):
            raise OutsideSubset('lambda arity')
        s2 = st
        saved = {}
        for a, v in zip(lam.args.args, args):
            saved[a.arg] = s2.env.get(a.arg, None)
            s2.env[a.arg] = v
        res = self.eval(s2, lam.body)
        for s3, _ in res:
            for k, v in saved.items():
                if v is None:
                    s3.env.pop(k, None)
                else:
                    s3.env[k] = v
        return res

    # ------------------------------------------------------------------
    # builtins
    # ------------------------------------------------------------------
    def call_builtin(self, st, name, args, kw, node):
        args = [a if isinstance(a, Entity) else self.need_value(a) for a in args]
        if name == 'len':
            return [(st, SV(TInt, self.len_term(st, args[0], node)))]
        if name == 'isinstance':
            return [(st, SV(TBool, self.isinstance_check(st, args[0], args[1], node)))]
        if name == 'bool':
            return [(st, SV(TBool, self.truthy(st, args[0])))]
        if name == 'str':
            v = args[0]
            if v.ty == TStr:
                return [(st, v)]
            if isinstance(v.ty, TOpaque) or isinstance(v.ty, TRef) or v.ty in (TInt, TBool) or isinstance(v.ty, TOpt):
                f = strops.ufun('py_str_' + ''.join(ch if ch.isalnum() else '_' for ch in v.ty.key()),
                                v.ty.sort(), z3.StringSort())
                return [(st, SV(TStr, f(box(v))))]
            raise OutsideSubset('str() of ' + str(v.ty))
        if name == 'repr':
            return [(st, fresh(TStr, 'repr'))]
        if name == 'int' and len(args) == 1 and isinstance(args[0], SV) and args[0].ty in (TBool, TInt):
            v = args[0]
            return [(st, v if v.ty == TInt else SV(TInt, z3.If(v.t, z3.IntVal(1), z3.IntVal(0))))]
        if name == 'print':
            c = api.REGISTRY.get('builtins.print')
            if c is None:
                raise OutsideSubset('no assumed contract for builtins.print')
            return self.apply_contract(st, c, args, kw, node)
        if name in ('int', 'float'):
            c = api.REGISTRY.get('builtins.' + name)
            if c is None:
                raise OutsideSubset('no assumed contract for builtins.' + name)
            return self.apply_contract(st, c, args, kw, node)
        if name == 'getattr':
            return self.builtin_getattr(st, args, node)
        if name == 'hasattr':
            c = api.REGISTRY.get('builtins.hasattr')
            if c is None:
                raise OutsideSubset('hasattr')
            return self.apply_contract(st, c, args, kw, node)
        if name == 'iter' and len(args) == 1:
            return [(st, args[0])]
        if name in ('list', 'tuple'):
            if not args:
                return [(st, SV(TSeq(TBottom), None))]
            v = args[0]
            if isinstance(v.ty, TSeq):
                return [(st, v)]
            if isinstance(v.ty, TTuple):
                return [(st, v if name == 'tuple' else seq_literal(list(v.t), self.classes))]
            if isinstance(v.ty, TMap):
                return [(st, SV(TSeq(v.ty.k), v.ty.keys(v.t)))]
            if isinstance(v.ty, TRef) and v.ty.cls.startswith('list:'):
                return [(st, self.read_field(st, v, v.ty.cls, 'items'))]
            raise OutsideSubset(name + '() of ' + str(v.ty))
        if name == 'dict':
            if not args:
                return [(st, SV(TMap(TBottom, TBottom), None))]
            v = args[0]
            if isinstance(v.ty, TMap):
                return [(st, v)]
            if isinstance(v.ty, TRef) and v.ty.cls.startswith('dict:'):
                return [(st, self.read_field(st, v, v.ty.cls, 'items'))]
            raise OutsideSubset('dict() of ' + str(v.ty))
        if name == 'sorted':
            c = api.REGISTRY.get('builtins.sorted')
            if c is not None:
                return self.apply_contract(st, c, args, kw, node)
            v = args[0]
            if isinstance(v.ty, TSeq):
                r = fresh(v.ty, 'sorted')
                st.assume(z3.Length(r.t) == z3.Length(v.t))
                return [(st, r)]
            raise OutsideSubset('sorted of ' + str(v.ty))
        if name in ('min', 'max') and len(args) == 2 and all(a.ty == TInt for a in args):
            a, b = args
            c = a.t <= b.t if name == 'min' else a.t >= b.t
            return [(st, SV(TInt, z3.If(c, a.t, b.t)))]
        if name == 'id':
            return [(st, fresh(TInt, 'id'))]
        if name == 'type':
            raise OutsideSubset('type()')
        raise OutsideSubset('builtin ' + name)

    def len_term(self, st, v, node):
        v = self.unwrap_opt(st, v, node, 'len')
        ty = v.ty
        if ty == TStr:
            return z3.Length(v.t)
        if isinstance(ty, TSeq):
            return z3.IntVal(0) if ty.elem is TBottom else z3.Length(v.t)
        if isinstance(ty, TMap):
            return z3.IntVal(0) if ty.k is TBottom else z3.Length(ty.keys(v.t))
        if isinstance(ty, TTuple):
            return z3.IntVal(len(v.t))
        if isinstance(ty, TUnion):
            parts = None
            ok = []
            for tag, alt in reversed(ty.alts):
                if isinstance(alt, (TSeq, TMap)) or alt == TStr:
                    inner = unbox(alt, ty.get(tag, v.t))
                    t = self.len_term(st, inner, node)
                    parts = t if parts is None else z3.If(ty.is_tag(tag, v.t), t, parts)
                    ok.append(ty.is_tag(tag, v.t))
            if parts is None:
                raise OutsideSubset('len of ' + str(ty))
            self.oblige(st, z3.Or(ok), 'safety', 'len-kind', node=node,
                        info={'claim': 'argument of len() is a sized container (TypeError)'})
            return parts
        if isinstance(ty, TRef):
            if ty.cls.startswith('list:') or ty.cls.startswith('dict:'):
                return self.len_term(st, self.read_field(st, v, ty.cls, 'items'), node)
            res = self.call_method(st, v, '__len__', [], {}, node)
            if len(res) == 1 and normal(res[0][0]) and res[0][1].ty == TInt:
                return res[0][1].t
        raise OutsideSubset('len of ' + str(ty))

    def isinstance_check(self, st, v, cls_ent, node):
        if isinstance(cls_ent, SV) and isinstance(cls_ent.ty, TTuple):
            raise OutsideSubset('isinstance with tuple')
        if isinstance(cls_ent, Entity) and cls_ent.kind == 'builtin':
            name = cls_ent.data
            if name == 'bytes':
                if isinstance(v.ty, TOpaque):
                    f = strops.ufun('py_is_bytes_' + v.ty.name, v.ty.sort(), z3.BoolSort())
                    return f(v.t)
                return z3.BoolVal(False)
            pred = {'dict': lambda t: isinstance(t, TMap) or (isinstance(t, TRef) and t.cls.startswith('dict:')),
                    'list': lambda t: isinstance(t, TSeq) or (isinstance(t, TRef) and t.cls.startswith('list:')),
                    'str': lambda t: t == TStr, 'int': lambda t: t in (TInt, TBool),
                    'tuple': lambda t: isinstance(t, TTuple), 'bool': lambda t: t == TBool}.get(name)
            if pred is None:
                raise OutsideSubset('isinstance ' + name)
            return self.static_type_test(v, pred)
        if isinstance(cls_ent, Entity) and cls_ent.kind == 'ext' and cls_ent.data == 'bytes':
            return self.static_type_test(v, lambda t: False)
        if not (isinstance(cls_ent, Entity) and cls_ent.kind == 'class'):
            raise OutsideSubset('isinstance against ' + repr(cls_ent))
        cls = cls_ent.data
        if isinstance(v.ty, TRef):
            if self.classes.is_subclass(v.ty.cls, cls):
                return z3.BoolVal(True)
            return self.isinstance_term(st, v, cls)
        if isinstance(v.ty, TOpt) and isinstance(v.ty.inner, TRef):
            inner = unbox(v.ty.inner, v.ty.val(v.t))
            return z3.And(z3.Not(v.ty.is_none(v.t)), self.isinstance_check(st, inner, cls_ent, node))
        return z3.BoolVal(False)

    def static_type_test(self, v, pred):
        ty = v.ty
        if isinstance(ty, TOpt):
            return z3.And(z3.Not(ty.is_none(v.t)), z3.BoolVal(bool(pred(ty.inner))))
        if isinstance(ty, TUnion):
            return z3.Or([ty.is_tag(tag, v.t) for tag, alt in ty.alts if pred(alt)] or [z3.BoolVal(False)])
        if isinstance(ty, TOpaque):
            f = strops.ufun('py_isinst_' + getattr(pred, '__name__', 'p') + '_' + ty.name, ty.sort(), z3.BoolSort())
            return f(v.t)
        return z3.BoolVal(bool(pred(ty)))

    def builtin_getattr(self, st, args, node):
        obj, name = args[0], args[1]
        name_t = z3.simplify(name.t)
        if not z3.is_string_value(name_t):
            raise OutsideSubset('getattr with symbolic name')
        attr = name_t.as_string()
        if isinstance(obj, Entity):
            c = api.REGISTRY.get('getattr:' + obj.data + '.' + attr)
            if c is not None:
                return self.apply_contract(st, c, [], {}, node)
            raise OutsideSubset('getattr on entity')
        if isinstance(obj.ty, TRef):
            dcls, fty = self.classes.field(obj.ty.cls, attr)
            if dcls is not None:
                present = self.field_presence(st, obj, attr)
                arr_v = self.heap_array(st, (dcls, attr), fty)
                v = unbox(fty, z3.Select(arr_v, obj.t))
                if len(args) == 3 and present is not None:
                    return [(st, merge(present, v, args[2], self.classes))]
                return [(st, v)]
            if len(args) == 3:
                return [(st, args[2])]
        raise OutsideSubset('getattr(%s, %r)' % (obj.ty, attr))

    def field_presence(self, st, obj, attr):
        dcls, _ = self.classes.field(obj.ty.cls, attr)
        m = api.MODELS.get(dcls)
        if m is not None and attr in m.optional:
            return self.read_field(st, obj, obj.ty.cls, m.optional[attr]).t
        return None

    def field_presence_old(self, st, obj, attr):
        """z3 Bool: the attribute exists on the object (class-dependent), or None when always."""
        owners = []
        for q in self.classes.subclasses(obj.ty.cls):
            dc, _ = self.classes.field(q, attr)
            owners.append((q, dc is not None))
        declared_here = self.classes.field(obj.ty.cls, attr)[0]
        m = api.MODELS.get(declared_here)
        if m is not None and attr in getattr(m, 'optional_fields', ()):
            f = strops.ufun('has_' + attr, z3.IntSort(), z3.BoolSort())
            return f(obj.t)
        return None

    def dynamic_getattr_call(self, st, gcall, call):
        """getattr(obj, 'prefix' + name)(args): enumerate the methods with that prefix."""
        target, nm = gcall.args
        if not (isinstance(nm, ast.BinOp) and isinstance(nm.op, ast.Add)
                and isinstance(nm.left, ast.Constant) and isinstance(nm.left.value, str)):
            return None
        prefix = nm.left.value
        out = []
        for s2, (obj, suffix) in self.eval_many(st, [target, nm.right]):
            if not normal(s2):
                out.append((s2, None))
                continue
            obj = self.need_value(obj)
            if not isinstance(obj.ty, TRef) or suffix.ty != TStr:
                raise OutsideSubset('dynamic getattr')
            names = set()
            for q in self.classes.mro(obj.ty.cls):
                if self.classes.is_real(q):
                    for mname in self.src.cls(q).methods:
                        if mname.startswith(prefix):
                            names.add(mname)
            names = sorted(names)
            self.oblige(s2, z3.Or([suffix.t == z3.StringVal(n[len(prefix):]) for n in names]),
                        'safety', 'getattr-method', node=call,
                        info={'claim': 'a method named %r + name exists (AttributeError)' % prefix})
            for n in names:
                s3 = s2.copy()
                s3.assume(suffix.t == z3.StringVal(n[len(prefix):]))
                s3.mark('dispatch:' + n)
                if not self.feasible(s3):
                    continue
                for s4, args, kw in self.eval_args(s3, call):
                    if not normal(s4):
                        out.append((s4, None))
                        continue
                    self.ghost_asserts_at_call(s4, call, args, target='self.' + n)
                    out.extend(self.call_method(s4, obj, n, args, kw, call))
        return out

    # ------------------------------------------------------------------
    # methods
    # ------------------------------------------------------------------
    def call_method(self, st, recv, name, args, kw, node, static_cls=None):
        recv = self.unwrap_opt(st, recv, node, '.%s()' % name)
        ty = recv.ty
        args = [self.need_value(a) if (not isinstance(a, Entity) or (a.kind == 'ext' and a.data in api.EXT_VALUES)) else a
                for a in args]
        if ty == TStr:
            return self.str_method(st, recv, name, args, kw, node)
        if isinstance(ty, TSeq):
            return self.seq_method(st, recv, name, args, node)
        if isinstance(ty, TMap):
            return self.map_method(st, recv, name, args, node)
        if isinstance(ty, TUnion):
            nb = self.narrow_union(st, recv, node, 'method ' + name,
                                   lambda t: (isinstance(t, TRef) and self.has_attr(t.cls, name)) or
                                   (t == TStr and name in ('lower', 'strip', 'split')) or
                                   (isinstance(t, TMap) and name in ('get', 'keys', 'items', 'values', 'copy')))
            return self.call_method(st, nb, name, args, kw, node)
        if isinstance(ty, TOpaque) and not isinstance(ty, TFun):
            c = api.REGISTRY.get(ty.name + '.' + name)
            if c is None:
                raise OutsideSubset('no assumed contract for %s.%s' % (ty.name, name))
            return self.apply_contract(st, c, [recv] + list(args), kw, node)
        if isinstance(ty, TRef):
            cls = static_cls or ty.cls
            if cls.startswith('rxmatch:'):
                return self.match_method(st, recv, name, args, node)
            if cls.startswith('list:') or cls.startswith('dict:'):
                items = self.read_field(st, recv, cls, 'items')
                if isinstance(items.ty, TSeq):
                    return self.seq_method(st, items, name, args, node)
                return self.map_method(st, items, name, args, node)
            c = self.classes.contract_for(cls, name)
            dc, mnode = self.classes.find_method(cls, name)
            top = api.REGISTRY.get(self.fn_name) if self.fn_name else None
            if mnode is not None and top is not None and (dc + '.' + name) in getattr(top, 'inline_calls', ()) \
                    and self.inline_depth == 0:
                return self.inline_call(st, dc + '.' + name, mnode, [recv] + list(args), kw, node)
            if c is not None and (dc is None or c.qualname == dc + '.' + name or
                                  not self.should_inline(dc + '.' + name)):
                return self.apply_contract(st, c, args, kw, node, self_sv=recv,
                                           static=bool(static_cls) and dc is not None and c.qualname == dc + '.' + name)
            if mnode is not None and self.should_inline(dc + '.' + name):
                return self.inline_call(st, dc + '.' + name, mnode, [recv] + list(args), kw, node)
            if c is not None:
                return self.apply_contract(st, c, args, kw, node, self_sv=recv)
            if mnode is None:
                if name in ('__enter__', '__exit__', '__iter__', '__len__', '__contains__', '__getitem__'):
                    raise OutsideSubset('%s has no %s' % (cls, name))
                self.oblige(st, False, 'safety', 'no-method', node=node,
                            info={'claim': '%s has a method %s (AttributeError)' % (cls, name)})
            raise OutsideSubset('no contract for %s.%s' % (cls, name))
        raise OutsideSubset('method %s on %s' % (name, ty))

    def should_inline(self, qual):
        if qual in api.INLINE:
            return True
        top = api.REGISTRY.get(self.fn_name) if self.fn_name else None
        return top is not None and qual in getattr(top, 'inline_calls', ())

    def call_function(self, st, qual, args, kw, node):
        c = api.REGISTRY.get(qual)
        if c is not None and not self.should_inline(qual):
            return self.apply_contract(st, c, args, kw, node)
        if self.should_inline(qual):
            fs = self.src.func(qual)
            return self.inline_call(st, qual, fs.node, args, kw, node)
        raise OutsideSubset('no contract for ' + qual)

    def inline_call(self, st, qual, fnode, args, kw, node):
        """Execute the real body of a tiny helper in place (listed as inlined)."""
        self.inlined.add(qual)
        if self.inline_depth > 6:
            raise OutsideSubset('inline depth')
        params = [a.arg for a in fnode.args.args]
        defaults = fnode.args.defaults
        bound = {}
        for i, p in enumerate(params):
            if i < len(args):
                bound[p] = args[i]
            elif p in kw:
                bound[p] = kw[p]
            else:
                di = i - (len(params) - len(defaults))
                if di < 0:
                    raise OutsideSubset('missing argument ' + p)
                d = self.eval(st, defaults[di])
                bound[p] = d[0][1]
        inner = st.copy()
        saved_env = st.env
        inner.env = dict(bound)
        saved_mod = self.cur_module
        m, _ = self.src.split_qual(qual)
        self.cur_module = m
        self.inline_depth += 1
        saved_try = self.try_stack
        saved_lo = self.loop_ordinals
        saved_contract = self.contract
        self.try_stack = list(saved_try)
        self.loop_ordinals = {}
        self.contract = None
        try:
            ends = self.exec_block(inner, fnode.body)
        finally:
            self.cur_module = saved_mod
            self.inline_depth -= 1
            self.try_stack = saved_try
            self.loop_ordinals = saved_lo
            self.contract = saved_contract
        out = []
        for e in ends:
            e.env = dict(saved_env)
            if e.flow == 'return':
                r = e.ret
                e.flow = 'normal'
                e.ret = None
                out.append((e, r))
            elif e.flow == 'normal':
                out.append((e, NONE))
            elif e.flow == 'raise':
                out.append((e, None))
            else:
                raise OutsideSubset('break/continue escaping inline')
        return out

    # ------------------------------------------------------------------
    def str_method(self, st, s, name, args, kw, node):
        t = s.t
        if name == 'lower':
            lt = strops.lower(t)
            st.fact((z3.Length(lt) == 0) == (z3.Length(t) == 0))
            st.fact(strops.lower(lt) == lt)
            return [(st, SV(TStr, lt))]
        if name == 'upper':
            return [(st, SV(TStr, strops.upper(t)))]
        if name in ('strip', 'rstrip', 'lstrip') and not args:
            r = getattr(strops, name)(t)
            nl = z3.StringVal('\n')
            # facts about stripping (assumed str semantics, cross-checked natively in the self-test)
            st.fact(z3.Contains(t, r))
            st.fact(getattr(strops, name)(r) == r)
            st.fact(z3.Implies(z3.Length(t) == 0, z3.Length(r) == 0))
            if name in ('strip', 'rstrip'):
                st.fact(z3.Implies(z3.Not(z3.Contains(z3.SubString(t, 0, z3.Length(t) - 1), nl)),
                                   z3.Not(z3.Contains(r, nl))))
            if name == 'strip':
                st.fact(strops.rstrip(r) == r)
                st.fact(strops.lstrip(r) == r)
            return [(st, SV(TStr, r))]
        if name == 'find':
            return [(st, SV(TInt, strops.find(t, args[0].t, args[1].t if len(args) > 1 else None)))]
        if name == 'startswith':
            if args[0].ty != TStr:
                raise OutsideSubset('startswith tuple')
            return [(st, SV(TBool, strops.startswith(t, args[0].t, args[1].t if len(args) > 1 else None)))]
        if name == 'endswith':
            return [(st, SV(TBool, strops.endswith(t, args[0].t)))]
        if name == 'join':
            c = api.REGISTRY.get('str.join')
            if c is not None:
                return self.apply_contract(st, c, [s] + args, kw, node)
            return [(st, fresh(TStr, 'join'))]
        if name in ('split', 'rsplit', 'replace', 'format', 'splitlines', 'partition', 'decode', 'encode',
                    'isspace', 'isdigit', 'count'):
            key_ = name
            if name in ('split', 'rsplit') and args and args[0].ty != TNone:
                key_ = name + 'sep'
            c = api.REGISTRY.get('str.' + key_ + ('' if not args else str(len(args))))
            if c is None:
                c = api.REGISTRY.get('str.' + name)
            if c is None:
                raise OutsideSubset('no contract for str.' + name)
            return self.apply_contract(st, c, [s] + args, kw, node)
        raise OutsideSubset('str method ' + name)

    def seq_method(self, st, s, name, args, node):
        if name == 'copy':
            return [(st, s)]
        if name == 'index' or name == 'count':
            raise OutsideSubset('seq.' + name)
        raise OutsideSubset('non-mutating seq method ' + name)

    def map_method(self, st, m, name, args, node):
        if m.ty.k is TBottom:
            if name == 'get':
                return [(st, args[1] if len(args) > 1 else NONE)]
            if name in ('keys', 'values', 'items'):
                return [(st, SV(TSeq(TBottom), None))]
            if name == 'copy':
                return [(st, m)]
        if name == 'get':
            has = self.map_has(m, args[0])
            v = self.map_get(m, args[0])
            self.assume_ref_closed(st, v) if False else None
            dflt = args[1] if len(args) > 1 else NONE
            return [(st, merge(has, v, dflt, self.classes))]
        if name == 'keys':
            return [(st, SV(TSeq(m.ty.k), m.ty.keys(m.t)))]
        if name == 'copy':
            return [(st, m)]
        if name == 'items' or name == 'values':
            raise OutsideSubset('dict.%s() outside a for loop' % name)
        raise OutsideSubset('map method ' + name)

    def match_method(self, st, recv, name, args, node):
        cls = recv.ty.cls
        if name == 'group':
            if not args:
                return [(st, self.read_field(st, recv, cls, 'g_0'))]
            vals = []
            for a in args:
                t = z3.simplify(a.t)
                if z3.is_int_value(t):
                    key = 'g_%d' % t.as_long()
                elif z3.is_string_value(t):
                    key = 'g_' + t.as_string()
                else:
                    raise OutsideSubset('symbolic group name')
                if self.classes.field(cls, key)[0] is None:
                    self.oblige(st, False, 'safety', 'no-group', node=node,
                                info={'claim': 'group %s exists in the pattern (IndexError)' % key[2:]})
                    raise OutsideSubset('unknown group')
                vals.append(self.read_field(st, recv, cls, key))
            if len(vals) == 1:
                return [(st, vals[0])]
            return [(st, SV(TTuple([v.ty for v in vals]), tuple(vals)))]
        if name == 'end' and not args:
            return [(st, self.read_field(st, recv, cls, 'end'))]
        if name == 'start' and not args:
            return [(st, self.read_field(st, recv, cls, 'start'))]
        raise OutsideSubset('match method ' + name)

    # ------------------------------------------------------------------
    # in-place mutation of containers
    # ------------------------------------------------------------------
    def mutate(self, st, loc, op, args, node, target_expr):
        args = [self.need_value(a) for a in args]
        pl, cont = self.container_of(st, loc, node, op)
        if pl is None:
            # a temporary (e.g. result of a call): mutation is unobservable unless returned
            raise OutsideSubset('%s on a temporary container' % op)
        if isinstance(cont.ty, TUnion):
            want_map = op in ('update', 'setdefault') or (op == 'pop' and False)
            if want_map:
                pred = lambda t: isinstance(t, TMap)
            elif op == 'append' and args:
                def pred(t, a=args[0]):
                    if not isinstance(t, TSeq):
                        return False
                    if isinstance(t.elem, TOpaque) and not isinstance(a.ty, TOpaque):
                        return False      # not through the any-value injection
                    try:
                        coerce(a, t.elem, self.classes)
                        return True
                    except TypeMismatch:
                        return False
            else:
                pred = lambda t: isinstance(t, TSeq)
            pl, cont = self.pick_alt(st, pl, cont, node, pred)
        if isinstance(cont.ty, TSeq):
            return self.mutate_seq(st, pl, cont, op, args, node)
        if isinstance(cont.ty, TMap):
            return self.mutate_map(st, pl, cont, op, args, node)
        raise OutsideSubset('%s on %s' % (op, cont.ty))

    def mutate_seq(self, st, pl, cont, op, args, node):
        if op == 'append':
            x = args[0]
            if cont.ty.elem is TBottom:
                cont = SV(TSeq(x.ty), z3.Empty(TSeq(x.ty).sort()))
            try:
                e = box(coerce(x, cont.ty.elem, self.classes))
            except TypeMismatch:
                if isinstance(x.ty, TTuple) and isinstance(cont.ty.elem, TTuple) and len(x.ty.items) == len(cont.ty.elem.items):
                    # a tuple with Optional components where the list holds plain ones: each such
                    # component must not be None here (safety obligation), then it fits
                    parts = [self.coerce_checked(st, xi, ti, node, 'append-item') for xi, ti in zip(x.t, cont.ty.elem.items)]
                    x = SV(cont.ty.elem, tuple(parts))
                    self.write_place(st, pl, SV(cont.ty, z3.Concat(cont.t, sunit(cont.ty.elem, box(x)))), node)
                    return [(st, NONE)]
                j = join(cont.ty.elem, x.ty)
                if j is None:
                    raise
                cont = coerce_seq(cont, TSeq(j), self.classes)
                e = box(coerce(x, j, self.classes))
            self.write_place(st, pl, SV(cont.ty, z3.Concat(cont.t, sunit(cont.ty.elem, e))), node)
            return [(st, NONE)]
        if op == 'extend':
            x = args[0]
            if isinstance(x.ty, TRef) and x.ty.cls.startswith('list:'):
                x = self.read_field(st, x, x.ty.cls, 'items')
            if isinstance(x.ty, TTuple):
                x = seq_literal(list(x.t), self.classes)
            if x.ty.elem is TBottom:
                return [(st, NONE)]
            if cont.ty.elem is TBottom:
                self.write_place(st, pl, x, node)
                return [(st, NONE)]
            self.write_place(st, pl, SV(cont.ty, z3.Concat(cont.t, coerce(x, cont.ty, self.classes).t)), node)
            return [(st, NONE)]
        if op == 'pop' and not args:
            n = z3.Length(cont.t)
            self.oblige(st, n > 0, 'safety', 'pop-empty', node=node,
                        info={'claim': 'pop from a non-empty list (IndexError)'})
            last = unbox(cont.ty.elem, snth(cont.ty.elem, cont.t, n - 1))
            self.assume_ref_closed(st, last)
            self.write_place(st, pl, SV(cont.ty, z3.SubSeq(cont.t, 0, n - 1)), node)
            return [(st, last)]
        if op == 'insert':
            i = self.int_term(st, args[0], node, 'index')
            i = z3.simplify(i)
            n = z3.Length(cont.t)
            ii = strops.norm_index(i, n)
            e = box(coerce(args[1], cont.ty.elem, self.classes))
            t = z3.Concat(z3.SubSeq(cont.t, 0, ii), sunit(cont.ty.elem, e), z3.SubSeq(cont.t, ii, n - ii))
            self.write_place(st, pl, SV(cont.ty, t), node)
            return [(st, NONE)]
        if op == 'remove':
            e = sunit(cont.ty.elem, box(coerce(args[0], cont.ty.elem, self.classes)))
            if self.catches(st, 'builtin:ValueError'):
                # inside try / except ValueError: a real fork
                outs = []
                b = st.copy()
                b.assume(z3.Not(z3.Contains(cont.t, e)))
                if self.feasible(b):
                    self.raise_builtin(b, 'builtin:ValueError', node)
                    outs.append((b, None))
                st.assume(z3.Contains(cont.t, e))
                if not self.feasible(st):
                    return outs
                i = z3.IndexOf(cont.t, e, 0)
                n = z3.Length(cont.t)
                self.write_place(st, pl, SV(cont.ty, z3.Concat(z3.SubSeq(cont.t, 0, i), z3.SubSeq(cont.t, i + 1, n - i - 1))), node)
                return outs + [(st, NONE)]
            self.oblige(st, z3.Contains(cont.t, e), 'safety', 'remove-missing', node=node,
                        info={'claim': 'list.remove(x): x is in the list (ValueError)'})
            i = z3.IndexOf(cont.t, e, 0)
            n = z3.Length(cont.t)
            self.write_place(st, pl, SV(cont.ty, z3.Concat(z3.SubSeq(cont.t, 0, i), z3.SubSeq(cont.t, i + 1, n - i - 1))), node)
            return [(st, NONE)]
        if op == 'clear':
            self.write_place(st, pl, SV(cont.ty, z3.Empty(cont.ty.sort())), node)
            return [(st, NONE)]
        if op == 'reverse' and not args:
            if cont.ty.elem is TBottom:
                return [(st, NONE)]
            r = fresh(cont.ty, 'rev')
            n = z3.Length(cont.t)
            k = z3.Int('rv!k')
            st.assume(z3.Length(r.t) == n)
            st.assume(z3.ForAll([k], z3.Implies(z3.And(k >= 0, k < n), r.t[k] == cont.t[n - 1 - k])))
            self.write_place(st, pl, r, node)
            return [(st, NONE)]
        raise OutsideSubset('list.' + op)

    def mutate_map(self, st, pl, cont, op, args, node):
        if op == 'update':
            src = args[0]
            if isinstance(src.ty, TRef) and src.ty.cls.startswith('dict:'):
                src = self.read_field(st, src, src.ty.cls, 'items')
            if isinstance(src.ty, TUnion):
                src = self.narrow_union(st, src, node, 'update source', lambda t: isinstance(t, TMap))
            if isinstance(src.ty, TMap) and src.ty.k is TBottom:
                return [(st, NONE)]
            if not isinstance(src.ty, TMap):
                raise OutsideSubset('dict.update with ' + str(src.ty))
            if cont.ty.k is TBottom:
                self.write_place(st, pl, src, node)
                return [(st, NONE)]
            if src.ty == cont.ty and z3.is_true(z3.simplify(z3.Length(cont.ty.keys(cont.t)) == 0)):
                self.write_place(st, pl, src, node)        # updating an empty dict
                return [(st, NONE)]
            # result characterised extensionally (insertion order: old keys, then new ones in src order)
            res = fresh(cont.ty, 'upd')
            ck, sk, rk = cont.ty.keys(cont.t), src.ty.keys(src.t), cont.ty.keys(res.t)
            k = z3.Const('upd_k', cont.ty.k.sort())
            uk = sunit(cont.ty.k, k)
            st.assume(z3.ForAll([k], z3.Contains(rk, uk) == z3.Or(z3.Contains(ck, uk), z3.Contains(sk, uk))))
            st.assume(z3.ForAll([k], z3.Select(cont.ty.vals(res.t), k) ==
                                z3.If(z3.Contains(sk, uk), z3.Select(src.ty.vals(src.t), k),
                                      z3.Select(cont.ty.vals(cont.t), k))))
            st.assume(z3.PrefixOf(ck, rk))
            st.assume(z3.Implies(z3.Length(ck) == 0, rk == sk))
            if src.ty == cont.ty:
                # updating an EMPTY dict gives exactly the source's entries
                st.assume(z3.Implies(z3.Length(ck) == 0, res.t == src.t))
            st.assume(z3.Implies(z3.Length(sk) == 0, rk == ck))
            self.write_place(st, pl, res, node)
            return [(st, NONE)]
        if op == 'pop':
            raise OutsideSubset('dict.pop')
        if op == 'clear':
            self.write_place(st, pl, SV(cont.ty, empty_map(cont.ty)), node)
            return [(st, NONE)]
        raise OutsideSubset('dict.' + op)

    # ------------------------------------------------------------------
    # object construction
    # ------------------------------------------------------------------
    def class_attr_defaults(self, st, obj, cls):
        """Instance attributes that fall back to class attributes (closed = False, ...)."""
        for f, (dc, fty) in self.classes.all_fields(cls).items():
            if self.classes.is_real(cls):
                qa, val = self.src.find_class_attr(cls, f)
                if val is not None:
                    try:
                        cv = self.const_value(ast.literal_eval(val))
                    except Exception:
                        continue
                    arr = self.heap_array(st, (dc, f), fty)
                    st.heap[(dc, f)] = z3.Store(arr, obj.t, box(self.coerce(st, cv, fty)))

    def construct(self, st, cls, args, kw, node):
        cls = self.classes.canon(cls)
        ctor = api.REGISTRY.get('new:' + cls)
        if ctor is not None:
            return self.apply_contract(st, ctor, args, kw, node)
        if cls.startswith('builtin:'):
            r = self.new_object(st, cls)
            return [(st, r)]
        obj = self.new_object(st, cls)
        self.class_attr_defaults(st, obj, cls)
        dc, init = self.classes.find_method(cls, '__init__')
        c = self.classes.contract_for(cls, '__init__')
        if c is None and init is None:
            return [(st, obj)]
        out = []
        for s2, r in self.call_method(st, obj, '__init__', args, kw, node):
            out.append((s2, obj if normal(s2) else None))
        return out

    # ------------------------------------------------------------------
    # comprehensions
    # ------------------------------------------------------------------
    def eval_ListComp(self, st, e):
        if len(e.generators) != 1 or e.generators[0].ifs or e.generators[0].is_async:
            raise OutsideSubset('comprehension shape')
        gen = e.generators[0]
        out = []
        for s2, it in self.eval_iterable(st, gen.iter):
            if not normal(s2):
                out.append((s2, None))
                continue
            if isinstance(it, SV) and isinstance(it.ty, TTuple):
                raise OutsideSubset('comprehension over tuple')
            from .symex_stmt import IterSrc
            src = it if isinstance(it, IterSrc) else self.iter_source(s2, it, e)
            out.extend(self.comprehension(s2, e, gen, src))
        return out

    def comprehension(self, st, e, gen, src):
        k = z3.Int(self.fresh_sym('ck'))
        probe = st.copy()
        probe.pc = ()
        probe.assume(z3.And(k >= 0, k < src.length))
        x = src.elem(probe, k)
        states = self.assign(probe, gen.target, x, e)
        if len(states) != 1:
            raise OutsideSubset('comprehension target')
        base_len = len(states[0].pc)
        normals, raises = [], []
        saved_obls = len(self.obls)
        # the element index is a term at which quantified assumptions are instantiated while the
        # element expression is evaluated (its obligations are about `the k-th element`)
        self.extra_inst_terms.insert(0, k)
        try:
            elt_outcomes = list(self.eval(states[0], e.elt))
        finally:
            self.extra_inst_terms.remove(k)
        for s2, v in elt_outcomes:
            extra = z3.And(list(s2.pc[base_len:])) if len(s2.pc) > base_len else z3.BoolVal(True)
            if normal(s2):
                normals.append((extra, self.need_value(v), s2))
            elif s2.flow == 'raise':
                raises.append((extra, s2))
            else:
                raise OutsideSubset('control flow in comprehension')
        # obligations emitted inside are under "k in range": keep them (they carry probe.pc) but
        # prefix the caller's path condition
        for ob in self.obls[saved_obls:]:
            ob.pc = tuple(st.pc) + tuple(st.facts) + ob.pc
        if len(normals) != 1:
            raise OutsideSubset('comprehension element with %d normal outcomes' % len(normals))
        ncond, nval, nst = normals[0]
        if nst.heap.keys() != states[0].heap.keys() or any(
                not z3.eq(nst.heap[h], states[0].heap[h]) for h in nst.heap if not isinstance(h, str) or h != '$cls'):
            pass
        i = z3.Int(self.fresh_sym('ci'))
        ety = nval.ty
        rty = TSeq(ety)
        out = []

        def at(term, idx):
            return z3.substitute(term, (k, idx))

        # normal outcome: every element converts
        ok = st.copy()
        res = fresh(rty, 'comp')
        ok.assume(z3.Length(res.t) == src.length)
        # (a fact, not an assumption: it defines the fresh sequence `res`; the quantifier-free proof
        # variants keep facts and drop quantified assumptions)
        ok.fact(z3.ForAll([i], z3.Implies(z3.And(i >= 0, i < src.length),
                                           z3.And(at(ncond, i), snth(ety, res.t, i) == at(box(nval), i)))))
        for f in nst.facts:
            ok.fact(f) if not contains_const(f, k) else None
        ok.mark('comp-ok')
        if self.feasible(ok):
            out.append((ok, res))
        for rcond, rst in raises:
            bad = st.copy()
            j = z3.Int(self.fresh_sym('cj'))
            bad.assume(z3.And(j >= 0, j < src.length, at(rcond, j)))
            bad.assume(z3.ForAll([i], z3.Implies(z3.And(i >= 0, i < j), at(ncond, i))))
            # the exception object and its fields come from the probe state, at index j
            bad.heap = {h: (z3.substitute(t, (k, j)) if z3.is_expr(t) else t) for h, t in rst.heap.items()}
            bad.alloc = z3.substitute(rst.alloc, (k, j))
            for a in rst.pc[base_len:]:
                pass
            bad.flow = 'raise'
            bad.exc = ExcInfo(rst.exc.cls, SV(rst.exc.ref.ty, z3.substitute(rst.exc.ref.t, (k, j))), rst.exc.opaque_cls)
            bad.ghost['comp_index'] = SV(TInt, j)
            bad.mark('comp-raise:' + rst.exc.cls)
            if self.feasible(bad):
                out.append((bad, None))
        return out

    def fresh_sym(self, prefix):
        from .values import fresh_name
        return fresh_name(prefix)


def contains_const(term, c):
    todo = [term]
    seen = set()
    while todo:
        t = todo.pop()
        if t.get_id() in seen:
            continue
        seen.add(t.get_id())
        if z3.eq(t, c):
            return True
        if z3.is_app(t):
            todo.extend(t.children())
        elif z3.is_quantifier(t):
            todo.append(t.body())
    return False


def coerce_seq(s, ty, classes):
    """Element-wise widening of a sequence value (only the cases that occur)."""
    if s.ty == ty:
        return s
    if s.ty.elem is TBottom:
        return SV(ty, z3.Empty(ty.sort()))
    raise TypeMismatch('cannot widen %s to %s' % (s.ty, ty))
