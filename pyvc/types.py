"""Type descriptors of the verifiable Python subset and their SMT sorts.

Every symbolic value the executor manipulates is an ``SV(ty, t)``: a type
descriptor and a z3 term (or, for fixed-arity tuples, a Python tuple of SVs).

  TInt TBool TStr TNone        Python int / bool / str / None
  TOpt(T)                      None | T                (z3 datatype Opt_T)
  TTuple(T1..Tn)               fixed-arity tuple       (python tuple of SVs;
                                                        boxed as datatype Tup_..
                                                        when stored in a container)
  TSeq(T)                      list / variable-length tuple with VALUE semantics
                               (uniquely owned container; see DESIGN 1.2a)
  TMap(K, V)                   dict with value semantics: (keys: Seq K in
                               insertion order, vals: Array K V)
  TRef(cls)                    reference to a heap object of class cls (aliasable)
  TUnion(name, alts)           tagged union of the listed alternatives
  TOpaque(name)                uninterpreted sort (messages, arbitrary Python values)
  TFun(name)                   an opaque callable (datatype function, handler)
"""
import z3

_dt_cache = {}
_sort_cache = {}


class Type:
    def __eq__(self, other):
        return isinstance(other, Type) and self.key() == other.key()

    def __hash__(self):
        return hash(self.key())

    def __repr__(self):
        return self.key()

    def is_opt(self):
        return False


class _Prim(Type):
    def __init__(self, name, sort_fn):
        self.name = name
        self._sort_fn = sort_fn

    def key(self):
        return self.name

    def sort(self):
        return self._sort_fn()


def _unit_sort():
    if 'Unit' not in _dt_cache:
        d = z3.Datatype('NoneT')
        d.declare('none_v')
        _dt_cache['Unit'] = d.create()
    return _dt_cache['Unit']


TInt = _Prim('int', z3.IntSort)
TBool = _Prim('bool', z3.BoolSort)
TStr = _Prim('str', z3.StringSort)
TNone = _Prim('None', _unit_sort)


def none_term():
    return _unit_sort().none_v


def _mangle(s):
    out = []
    for ch in s:
        out.append(ch if (ch.isalnum() or ch == '_') else '_')
    return ''.join(out)


class TOpaque(Type):
    def __init__(self, name):
        self.name = name

    def key(self):
        return 'opaque:' + self.name

    def sort(self):
        k = 'O_' + self.name
        if k not in _sort_cache:
            _sort_cache[k] = z3.DeclareSort(k)
        return _sort_cache[k]


class TFun(TOpaque):
    """An opaque callable value.  Behaviour comes from assumed contracts."""

    def key(self):
        return 'fun:' + self.name

    def sort(self):
        k = 'F_' + self.name
        if k not in _sort_cache:
            _sort_cache[k] = z3.DeclareSort(k)
        return _sort_cache[k]


class TRef(Type):
    def __init__(self, cls):
        self.cls = cls

    def key(self):
        return 'ref:' + self.cls

    def sort(self):
        return z3.IntSort()


class TOpt(Type):
    def __init__(self, inner):
        assert not isinstance(inner, TOpt), inner
        assert inner != TNone
        self.inner = inner

    def key(self):
        return 'opt[' + self.inner.key() + ']'

    def is_opt(self):
        return True

    def sort(self):
        k = 'Opt_' + _mangle(self.inner.key())
        if k not in _dt_cache:
            d = z3.Datatype(k)
            d.declare('none_' + k)
            d.declare('some_' + k, ('val_' + k, self.inner.sort()))
            _dt_cache[k] = d.create()
        return _dt_cache[k]

    def none(self):
        s = self.sort()
        return getattr(s, 'none_' + s.name())

    def some(self, t):
        s = self.sort()
        return getattr(s, 'some_' + s.name())(t)

    def is_none(self, t):
        s = self.sort()
        return getattr(s, 'is_none_' + s.name())(t)

    def val(self, t):
        s = self.sort()
        return getattr(s, 'val_' + s.name())(t)


class TTuple(Type):
    def __init__(self, items):
        self.items = tuple(items)

    def key(self):
        return 'tup[' + ','.join(i.key() for i in self.items) + ']'

    def sort(self):
        k = 'Tup_' + _mangle(self.key())
        if k not in _dt_cache:
            d = z3.Datatype(k)
            d.declare('mk_' + k, *[('f%d_%s' % (i, k), it.sort())
                                   for i, it in enumerate(self.items)])
            _dt_cache[k] = d.create()
        return _dt_cache[k]

    def mk(self, terms):
        s = self.sort()
        return getattr(s, 'mk_' + s.name())(*terms)

    def proj(self, t, i):
        s = self.sort()
        return getattr(s, 'f%d_%s' % (i, s.name()))(t)


class TSeq(Type):
    def __init__(self, elem):
        self.elem = elem

    def key(self):
        return 'seq[' + self.elem.key() + ']'

    def sort(self):
        return z3.SeqSort(elem_sort(self.elem))


class TMap(Type):
    def __init__(self, k, v):
        self.k = k
        self.v = v

    def key(self):
        return 'map[' + self.k.key() + ',' + self.v.key() + ']'

    def sort(self):
        k = 'Map_' + _mangle(self.key())
        if k not in _dt_cache:
            d = z3.Datatype(k)
            d.declare('mk_' + k,
                      ('keys_' + k, z3.SeqSort(elem_sort(self.k))),
                      ('vals_' + k, z3.ArraySort(self.k.sort(), self.v.sort())))
            _dt_cache[k] = d.create()
        return _dt_cache[k]

    def mk(self, keys, vals):
        s = self.sort()
        return getattr(s, 'mk_' + s.name())(keys, vals)

    def keys(self, t):
        s = self.sort()
        return getattr(s, 'keys_' + s.name())(t)

    def vals(self, t):
        s = self.sort()
        return getattr(s, 'vals_' + s.name())(t)


class TUnion(Type):
    """Tagged union: alts is an ordered list of (tag, Type)."""

    def __init__(self, name, alts):
        self.name = name
        self.alts = list(alts)

    def key(self):
        return 'union:' + self.name

    def sort(self):
        k = 'U_' + _mangle(self.name)
        if k not in _dt_cache:
            d = z3.Datatype(k)
            for tag, ty in self.alts:
                if ty == TNone:
                    d.declare('%s_%s' % (tag, k))
                else:
                    d.declare('%s_%s' % (tag, k), ('get_%s_%s' % (tag, k), ty.sort()))
            _dt_cache[k] = d.create()
        return _dt_cache[k]

    def tag_of(self, ty):
        for tag, t in self.alts:
            if t == ty:
                return tag
        return None

    def alt(self, tag):
        for tg, t in self.alts:
            if tg == tag:
                return t
        raise KeyError(tag)

    def inject(self, tag, term=None):
        s = self.sort()
        c = getattr(s, '%s_%s' % (tag, s.name()))
        if self.alt(tag) == TNone:
            return c
        return c(term)

    def is_tag(self, tag, term):
        s = self.sort()
        return getattr(s, 'is_%s_%s' % (tag, s.name()))(term)

    def get(self, tag, term):
        s = self.sort()
        return getattr(s, 'get_%s_%s' % (tag, s.name()))(term)


# ---------------------------------------------------------------------------
# Sequence elements whose own sort is a sequence (str, nested lists) are boxed
# in a one-field datatype: z3 mis-rewrites nested sequences (observed: `unsat`
# for a satisfiable query with Seq(String) keys), and cvc5 is slower on them.
# ---------------------------------------------------------------------------
def _needs_wrap(ty):
    return ty == TStr or isinstance(ty, TSeq)


def elem_sort(ty):
    if not _needs_wrap(ty):
        return ty.sort()
    k = 'Box_' + _mangle(ty.key())
    if k not in _dt_cache:
        d = z3.Datatype(k)
        d.declare('box_' + k, ('unbox_' + k, ty.sort()))
        _dt_cache[k] = d.create()
    return _dt_cache[k]


def wrap(ty, term):
    if not _needs_wrap(ty):
        return term
    s = elem_sort(ty)
    return getattr(s, 'box_' + s.name())(term)


def unwrap(ty, term):
    if not _needs_wrap(ty):
        return term
    s = elem_sort(ty)
    return getattr(s, 'unbox_' + s.name())(term)


def sunit(ty, term):
    """Singleton sequence holding an element term of type ty."""
    return z3.Unit(wrap(ty, term))


def snth(ty, seq, i):
    return unwrap(ty, seq[i])


# ---------------------------------------------------------------------------
# type expression parsing (strings used in contract files)
# ---------------------------------------------------------------------------

_named_types = {}


def define_type(name, ty):
    _named_types[name] = ty
    return ty


def parse_type(s):
    """Parse 'Opt[str]', 'Seq[Tuple[str, Opt[str], Ref[Matcher]]]', ..."""
    if isinstance(s, Type):
        return s
    s = s.strip()
    pos = [0]

    def skip():
        while pos[0] < len(s) and s[pos[0]].isspace():
            pos[0] += 1

    def ident():
        skip()
        j = pos[0]
        while j < len(s) and (s[j].isalnum() or s[j] in '_.:'):
            j += 1
        r = s[pos[0]:j]
        pos[0] = j
        return r

    def args():
        out = []
        skip()
        assert s[pos[0]] == '[', s
        pos[0] += 1
        while True:
            out.append(ty())
            skip()
            if s[pos[0]] == ',':
                pos[0] += 1
                continue
            assert s[pos[0]] == ']', s
            pos[0] += 1
            return out

    def ty():
        name = ident()
        skip()
        if name == 'int':
            return TInt
        if name == 'bool':
            return TBool
        if name == 'str':
            return TStr
        if name == 'None':
            return TNone
        if name == 'Opt':
            (a,) = args()
            return opt(a)
        if name == 'Seq':
            (a,) = args()
            return TSeq(a)
        if name == 'Map':
            a, b = args()
            return TMap(a, b)
        if name == 'Tuple':
            return TTuple(args())
        if name == 'Ref':
            skip()
            assert s[pos[0]] == '['
            pos[0] += 1
            c = ident()
            skip()
            assert s[pos[0]] == ']'
            pos[0] += 1
            return TRef(c)
        if name == 'Opaque':
            skip()
            pos[0] += 1
            c = ident()
            skip()
            pos[0] += 1
            return TOpaque(c)
        if name == 'Fun':
            skip()
            pos[0] += 1
            c = ident()
            skip()
            pos[0] += 1
            return TFun(c)
        if name in _named_types:
            return _named_types[name]
        raise ValueError('unknown type ' + repr(name) + ' in ' + repr(s))

    r = ty()
    skip()
    assert pos[0] == len(s), (s, pos[0])
    return r


def opt(t):
    if t == TNone:
        return TNone
    if isinstance(t, TOpt):
        return t
    return TOpt(t)


def join(a, b):
    """Least upper bound of two types, or None."""
    if a == b:
        return a
    if a == TNone:
        return opt(b)
    if b == TNone:
        return opt(a)
    if isinstance(a, TOpt) and isinstance(b, TOpt):
        j = join(a.inner, b.inner)
        return opt(j) if j is not None else None
    if isinstance(a, TOpt):
        j = join(a.inner, b)
        return opt(j) if j is not None else None
    if isinstance(b, TOpt):
        j = join(a, b.inner)
        return opt(j) if j is not None else None
    if isinstance(a, TTuple) and isinstance(b, TTuple) and len(a.items) == len(b.items):
        js = [join(x, y) for x, y in zip(a.items, b.items)]
        if any(j is None for j in js):
            return None
        return TTuple(js)
    if isinstance(a, TRef) and isinstance(b, TRef):
        return None  # decided by the class table in the executor
    if a == TBool and b == TInt or a == TInt and b == TBool:
        return TInt
    return None
