"""Helpers importable by specification modules (pure Python, no z3)."""


def recursive(params, returns):
    """Mark a specification function as recursive: the verifier treats it as an
    uninterpreted function whose defining equation is instantiated (one level)
    at every application that occurs in an obligation."""
    def deco(f):
        f._pyvc_recursive = (list(params), returns)
        return f
    return deco


def opaque(params, returns, reveal=(), inline_in=()):
    """Mark a (non-recursive) specification function as opaque: an uninterpreted
    function everywhere except while verifying the functions named in `reveal`,
    where its definition is unfolded (Dafny's opaque / reveal)."""
    def deco(f):
        f._pyvc_recursive = (list(params), returns)
        f._pyvc_reveal = tuple(reveal)
        # functions in whose verification the definition is simply inlined (also under quantifiers)
        f._pyvc_inline_in = tuple(inline_in)
        return f
    return deco
