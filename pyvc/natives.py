"""Native definitions of specification primitives that need the stdlib."""


def ipv6_ok(s):
    import socket
    try:
        socket.inet_pton(socket.AF_INET6, s)
        return True
    except (OSError, ValueError):
        return False


def float_ok(s):
    try:
        float(s)
        return True
    except ValueError:
        return False
