"""Regular-expression obligations, decided for strings of every length by the
automata back end (pyvc/rxauto.py).  Runs under the interpreter that runs
ZConfig (/venv/bin/python) so that Unicode tables are those of the code under
test.  Reads the LIVE pattern objects from the tree under test.

usage: python -m pyvc.rxcheck <spec-module> [ids...]   -> JSON on stdout
"""
import importlib
import json
import os
import sys
import time


def use_repo():
    root = os.environ.get('VERIF_REPO', '/repo')
    src = os.path.join(root, 'src')
    sys.path.insert(0, src)
    import ZConfig
    assert ZConfig.__file__.startswith(src), ZConfig.__file__
    return ZConfig


def resolve(path):
    """'ZConfig.substitution:_name_match.__self__.pattern' -> object"""
    modname, _, attrs = path.partition(':')
    obj = importlib.import_module(modname)
    for a in attrs.split('.'):
        if a.endswith('()'):
            obj = getattr(obj, a[:-2])()
        else:
            obj = getattr(obj, a)
    return obj


def run_check(rx, chk, pattern, flags):
    from pyvc import rxauto as A
    kind = chk['kind']
    pats = [(pattern, flags)]
    spec = chk.get('spec')
    spec_flags = chk.get('spec_flags', 0)
    import re
    sf = 0
    for name in ([spec_flags] if isinstance(spec_flags, int) else spec_flags):
        sf |= getattr(re, name) if isinstance(name, str) else name
    marker = kind in ('end', 'group-start', 'group-end')
    if spec is not None:
        pats.append((spec, sf))
    if chk.get('spec_lower') is not None:
        pats.append((chk['spec_lower'], sf))
    for extra in chk.get('also', ()):
        pats.append((extra, 0))
    U = A.make_alphabet(patterns=pats, extra_classes=chk.get('extra_classes', []),
                        marker=True if marker else False)
    dom = None
    if chk.get('domain') is not None:
        dom = A.lang_fullmatch(chk['domain'], getattr(re, 'DOTALL'), universe=U)
        if marker:
            dom = dom.with_marker_anywhere() if hasattr(dom, 'with_marker_anywhere') else dom
    if kind == 'match':
        live = A.lang_match(pattern, flags, universe=U)
        want = A.lang_fullmatch(spec, sf, universe=U)
    elif kind == 'match-then-whole':
        live = A.lang_match_then_whole(pattern, flags, universe=U)
        want = A.lang_fullmatch(spec, sf, universe=U)
    elif kind == 'between':
        # spec_lower <= live <= spec : the statement fixes the language only up to the difference
        live = A.lang_match_then_whole(pattern, flags, universe=U)
        upper = A.lang_fullmatch(spec, sf, universe=U)
        lower = A.lang_fullmatch(chk['spec_lower'], sf, universe=U)
        w = A.subset(lower, live)
        if w is not None:
            return {'equal': False, 'witness': w, 'in_live': False, 'in_spec': True, 'side': 'spec_lower not accepted'}
        w = A.subset(live, upper)
        if w is not None:
            return {'equal': False, 'witness': w, 'in_live': True, 'in_spec': False, 'side': 'accepted outside spec'}
        return {'equal': True, 'witness': None}
    elif kind == 'first-equals-full':
        live = A.lang_match_then_whole(pattern, flags, universe=U)
        want = A.lang_fullmatch(pattern, flags, universe=U)
    elif kind == 'end':
        live = A.lang_end_marked(pattern, flags, universe=U)
        want = A.lang_fullmatch(spec, sf, universe=U)
    elif kind in ('group-start', 'group-end'):
        live = A.lang_group_marked(pattern, chk['group'], kind.split('-')[1], flags, universe=U)
        want = A.lang_fullmatch(spec, sf, universe=U)
    elif kind == 'group-absent':
        live = A.lang_group_absent(pattern, chk['group'], flags, universe=U)
        want = A.lang_fullmatch(spec, sf, universe=U)
    else:
        raise ValueError(kind)
    if dom is not None:
        live = live & dom
        want = want & dom
    w = A.equivalent(live, want)
    res = {'equal': w is None, 'witness': w}
    if w is not None:
        res['in_live'] = live.accepts(w)
        res['in_spec'] = want.accepts(w)
    return res


def main(argv):
    use_repo()
    sys.path.insert(0, os.path.dirname(os.path.dirname(os.path.abspath(__file__))))
    specmod = importlib.import_module(argv[1])
    want_ids = set(argv[2:])
    out = []
    for rx in specmod.RX:
        if want_ids and rx['id'] not in want_ids:
            continue
        t0 = time.time()
        entry = {'id': rx['id'], 'source': rx['source'], 'checks': []}
        try:
            obj = resolve(rx['source'])
            pattern = obj.pattern if hasattr(obj, 'pattern') else obj
            flags = 0
            entry['pattern'] = pattern
            if 'expect_call' in rx:
                pass
            for chk in rx['checks']:
                c = {'label': chk['label'], 'kind': chk['kind'], 'spec': chk.get('spec'),
                     'carries': chk.get('carries')}
                try:
                    c.update(run_check(rx, chk, pattern, flags))
                    c['status'] = 'discharged' if c['equal'] else 'refuted'
                except Exception as ex:     # Unsupported, resource limits, ...
                    c['status'] = 'undecided'
                    c['reason'] = '%s: %s' % (type(ex).__name__, str(ex)[:200])
                entry['checks'].append(c)
        except Exception as ex:
            entry['error'] = '%s: %s' % (type(ex).__name__, str(ex)[:200])
        entry['time'] = round(time.time() - t0, 3)
        out.append(entry)
    json.dump(out, sys.stdout, indent=1, ensure_ascii=False)


if __name__ == '__main__':
    main(sys.argv)
