"""Class table: real classes of the tree under test + virtual (external) models."""
from . import api
from .types import TRef, parse_type
from .values import OutsideSubset

BUILTIN_EXC = {
    'BaseException': None,
    'Exception': 'BaseException',
    'ValueError': 'Exception',
    'TypeError': 'Exception',
    'LookupError': 'Exception',
    'KeyError': 'LookupError',
    'IndexError': 'LookupError',
    'AttributeError': 'Exception',
    'AssertionError': 'Exception',
    'RuntimeError': 'Exception',
    'NotImplementedError': 'RuntimeError',
    'RecursionError': 'RuntimeError',
    'OSError': 'Exception',
    'IOError': 'Exception',          # alias of OSError; kept distinct only by name
    'ImportError': 'Exception',
    'StopIteration': 'Exception',
    'OverflowError': 'Exception',
    'UnicodeError': 'ValueError',
    'UnicodeDecodeError': 'UnicodeError',
    'object': None,
    'dict': 'object',
    'ABC': 'object',
}


class Classes:
    def __init__(self, source):
        self.src = source
        self._ids = {}
        # the class table does not change during a run (models are registered when the contract
        # files are imported, before the first function is generated): memoise the lookups
        self._memo = {}

    def _cached(self, key, fn):
        if key not in self._memo:
            self._memo[key] = fn()
        return self._memo[key]

    # -- names ---------------------------------------------------------
    def canon(self, name):
        """Canonical class name: 'ZConfig.X' -> '__init__.X', 'ValueError' -> 'builtin:ValueError'."""
        if name.startswith('builtin:') or name.startswith('ext:'):
            return name
        if ('ext:' + name) in api.MODELS:
            return 'ext:' + name
        if name.startswith('ZConfig.'):
            rest = name[len('ZConfig.'):]
            try:
                init = self.src.module('__init__')
                if rest in init.classes:
                    return '__init__.' + rest
            except KeyError:
                pass
            return rest
        if name in BUILTIN_EXC:
            return 'builtin:' + name
        return name

    def is_real(self, q):
        if q.startswith('ext:') or q.startswith('builtin:'):
            return False
        try:
            self.src.cls(q)
            return True
        except KeyError:
            return False

    def bases(self, q):
        q = self.canon(q)
        if q.startswith('builtin:'):
            b = BUILTIN_EXC.get(q[8:])
            return ['builtin:' + b] if b else []
        if self.is_real(q):
            c = self.src.cls(q)
            out = []
            for b in c.bases:
                r = self.src.resolve_base(c, b)
                if r:
                    out.append(r if not r.startswith('ext:') else 'builtin:object')
            m = api.MODELS.get(q)
            if m is not None:
                out.extend(self.canon(b) for b in m.bases)      # virtual interface bases
            return out
        m = api.MODELS.get(q)
        if m is not None:
            return [self.canon(b) for b in m.bases]
        return []

    def mro(self, q):
        return list(self._cached(('mro', q), lambda: self._mro(q)))

    def _mro(self, q):
        q = self.canon(q)
        if self.is_real(q) and not any(api.MODELS.get(c) is not None and api.MODELS[c].bases
                                       for c in self.src.mro(q) if not c.startswith(('builtin:', 'ext:'))):
            out = []
            for c in self.src.mro(q):
                if c.startswith('ext:'):
                    continue
                out.append(c)
                if c.startswith('builtin:'):
                    # extend with the builtin chain
                    b = BUILTIN_EXC.get(c[8:])
                    while b:
                        if 'builtin:' + b not in out:
                            out.append('builtin:' + b)
                        b = BUILTIN_EXC.get(b)
            return out
        out = [q]
        todo = list(self.bases(q))
        while todo:
            b = todo.pop(0)
            if b not in out:
                out.append(b)
                todo.extend(self.bases(b))
        return out

    def is_subclass(self, sub, sup):
        return self._cached(('issub', sub, sup), lambda: self._is_subclass(sub, sup))

    def _is_subclass(self, sub, sup):
        sub = self.canon(sub)
        sup = self.canon(sup)
        if sub == sup or sup == 'builtin:object':
            return True
        return sup in self.mro(sub)

    def cid(self, q):
        q = self.canon(q)
        if q not in self._ids:
            self._ids[q] = len(self._ids) + 1
        return self._ids[q]

    def all_known(self):
        return set(self._cached(('known', len(api.MODELS)), self._all_known))

    def _all_known(self):
        names = set(api.MODELS)
        for modname in ('__init__', 'cfgparser', 'cmdline', 'datatypes', 'info', 'loader',
                        'matcher', 'schema', 'schemaless', 'substitution', 'url', 'validator',
                        'components.logger.datatypes', 'components.logger.factory',
                        'components.logger.formatter', 'components.logger.handlers',
                        'components.logger.logger', 'components.logger.loghandler'):
            try:
                m = self.src.module(modname)
            except (KeyError, SyntaxError):
                continue
            for c in m.classes.values():
                names.add(c.qualname)
        return names

    def subclasses(self, q):
        return list(self._cached(('sub', q), lambda: self._subclasses(q)))

    def _subclasses(self, q):
        q = self.canon(q)
        return sorted(c for c in self.all_known() | {q} if self.is_subclass(c, q))

    # -- fields --------------------------------------------------------
    def field(self, cls, name):
        """(declaring class, Type) of a field, searching models along the MRO."""
        return self._cached(('field', cls, name, len(api.MODELS.get(cls).fields) if cls in api.MODELS else 0),
                            lambda: self._field(cls, name))

    def _field(self, cls, name):
        for c in self.mro(cls):
            m = api.MODELS.get(c)
            if m is not None and name in m.fields:
                return c, parse_type(m.fields[name])
        return None, None

    def all_fields(self, cls):
        out = {}
        for c in reversed(self.mro(cls)):
            m = api.MODELS.get(c)
            if m is not None:
                for f, t in m.fields.items():
                    out[f] = (c, parse_type(t))
        return out

    def invariants(self, cls):
        out = []
        for c in reversed(self.mro(cls)):
            m = api.MODELS.get(c)
            if m is not None:
                out.extend(m.invariant)
        return out

    def find_method(self, cls, name):
        """(defining class, ast node) in the real source, or (None, None)."""
        cls = self.canon(cls)
        if not self.is_real(cls):
            return None, None
        return self.src.find_method(cls, name)

    def contract_for(self, cls, name):
        """Contract of method `name` as seen from static class `cls`: the first
        class along the MRO that has a registered contract."""
        for c in self.mro(cls):
            k = c + '.' + name
            if k in api.REGISTRY:
                return api.REGISTRY[k]
        return None
