"""Self-test of pyvc.rxauto: cross-check every construction against CPython's
real ``re``.  Run from /verif as ``python3-vt -m pyvc.test_rxauto``.
Exit status 0 iff everything agrees."""

import random
import re
import sys
import time

from pyvc import rxauto as rx
from pyvc.rxauto import (Unsupported, make_alphabet, lang_fullmatch, lang_match,
                         lang_match_then_whole, lang_end_marked,
                         lang_group_marked, lang_group_absent, equivalent,
                         subset, uses_anchors, Lang)

IPADDR = (r'(^(\d|[01]?\d\d|2[0-4]\d|25[0-5])\.(\d|[01]?\d\d|2[0-4]\d|25[0-5])'
          r'\.(\d|[01]?\d\d|2[0-4]\d|25[0-5])\.(\d|[01]?\d\d|2[0-4]\d|25[0-5])$)'
          r'|([A-Za-z_][-A-Za-z0-9_.]*[-A-Za-z0-9_])|([0-9A-Fa-f:.]+:[0-9A-Fa-f:.]*)')
BASIC_KEY = r'[a-zA-Z][-._a-zA-Z0-9]*'
DOTTED_NAME = r'[_a-zA-Z][_a-zA-Z0-9]*(?:\.[_a-zA-Z][_a-zA-Z0-9]*)*'
DOTTED_SUFFIX = (r'(?:[_a-zA-Z][_a-zA-Z0-9]*)(?:\.[_a-zA-Z][_a-zA-Z0-9]*)*'
                 r'|(?:\.[_a-zA-Z][_a-zA-Z0-9]*)+')

LIVE = [
    r'[a-zA-Z_][a-zA-Z0-9_]*',
    r'[^\s()]+',
    r'(?P<key>[^\s()]+)\s*(?P<value>[^\s].*)?$',
    r'(?P<type>[^\s()]+)(?:\s+(?P<name>[^\s()]+))?$',
    r'[a-zA-Z][-+.a-zA-Z0-9]*:',
    BASIC_KEY, DOTTED_NAME, DOTTED_SUFFIX, IPADDR,
]
ADVERSARIAL = [
    r'a|ab', r'(a|ab)(c|bcd)?', r'(a*)(ab)?b*', r'x*?y', r'(?:a|b)*abb',
    r'a$', r'^a|b',
    # more
    r'', r'^$', r'(a*)?b', r'(a|)?b', r'(?:(a)|b)*', r'(?:(a)|(b))*c',
    r'(?:(a)x|(b))*', r'(a)|b', r'a$\n', r'a\Z', r'(a|b)*?b', r'a{2,3}',
    r'a{2,3}?a', r'(a{1,2}?)(a*)', r'(ab|a)(bc|c)?', r'(a+)(a*)', r'(a+?)(a*)',
    r'.*a', r'\w+\s\d', r'a|b$|c', r'(a$)|ab', r'(a$|a)\n?', r'(?:a$|a\n)b?',
    r'(^a)?b', r'(a?)(b?)$', r'(a|ab)$', r'(a|a\n)$', r'(a|a\n)\Z',
    r'(?:a$)?a\n', r'(a+$|a)(a|\n)*', r'([^a]|ab)+?b', r'(?:(a+)|(b))+',
    r'(?:(a)|(ab))(?:(c)|(bcd))?', r'\A(a)\Z|(a\n)', r'(\d+)\.?(\d*)',
    r'(a(b)?)+', r'(a(b)?)+?c', r'(?:(a)|(b)|(c))*',
]
WITH_FLAGS = [(r'(.)a', re.DOTALL), (r'(?s).*a$', 0), (r'\w+\s\d', re.ASCII),
              (r'a  b # comment', re.VERBOSE)]

failures = []


def fail(msg):
    failures.append(msg)
    if len(failures) <= 25:
        print('FAIL:', msg)


def check_categories():
    """\\d \\s \\w tables vs one re.match call per code point."""
    for name, pat in (('d', r'\d'), ('s', r'\s'), ('w', r'\w')):
        for ascii_mode in (False, True):
            rxp = re.compile(pat, re.ASCII if ascii_mode else 0)
            hi = 0x110000 if not ascii_mode else 0x3000
            got = set()
            for lo, h in rx._category_ranges(name, ascii_mode):
                got.update(range(lo, h + 1))
            m = rxp.match
            want = {c for c in range(hi) if m(chr(c))}
            if got != want:
                fail('category \\%s ascii=%s differs from re' % (name, ascii_mode))
    n_space = rx._size(rx._category_ranges('s', False))
    n_digit = rx._size(rx._category_ranges('d', False))
    if n_space != 29:
        fail('expected 29 whitespace code points, got %d' % n_space)
    print('categories ok (\\s: %d code points, \\d: %d)' % (n_space, n_digit))


def span_of(m, g, edge):
    return m.start(g) if edge == 'start' else m.end(g)


def check_pattern(pattern, flags=0, maxwords=150000):
    t0 = time.time()
    cre = re.compile(pattern, flags)
    U = make_alphabet([(pattern, flags)], marker=True)
    K, MK = U.nclasses, U.marker_sym
    L = 5
    while L > 1 and K ** L > maxwords:
        L -= 1
    ngroups = cre.groups + 1
    t1 = time.time()
    l_match = lang_match(pattern, flags, universe=U)
    l_whole = lang_match_then_whole(pattern, flags, universe=U)
    l_full = lang_fullmatch(pattern, flags, universe=U)
    l_end = lang_end_marked(pattern, flags, universe=U)
    marked = [(l_end, 0, 'end')]
    absent = []
    for g in range(ngroups):
        for edge in ('start', 'end'):
            marked.append((lang_group_marked(pattern, g, edge, flags, universe=U),
                           g, edge))
        absent.append((lang_group_absent(pattern, g, flags, universe=U), g))
    # named groups resolve to the same automata
    for name, g in cre.groupindex.items():
        if equivalent(lang_group_marked(pattern, name, 'end', flags, universe=U),
                      lang_group_marked(pattern, g, 'end', flags, universe=U)):
            fail('%r: named group %s differs from numbered' % (pattern, name))
    build = time.time() - t1
    reps = U.reps
    unmarked = [l_match, l_whole, l_full] + [a for a, _g in absent]
    nwords = 0

    def visit(word, ustates, mvecs):
        nonlocal nwords
        nwords += 1
        n = len(word)
        m = cre.match(word)
        fm = cre.fullmatch(word)
        if l_match.accept[ustates[0]] != (m is not None):
            fail('%r lang_match wrong on %r' % (pattern, word))
        if l_whole.accept[ustates[1]] != (m is not None and m.group() == word):
            fail('%r lang_match_then_whole wrong on %r' % (pattern, word))
        if l_full.accept[ustates[2]] != (fm is not None):
            fail('%r lang_fullmatch wrong on %r' % (pattern, word))
        for i, (lang, g) in enumerate(absent):
            want = m is not None and m.group(g) is None
            if lang.accept[ustates[3 + i]] != want:
                fail('%r lang_group_absent(%d) wrong on %r' % (pattern, g, word))
        for (lang, g, edge), vec in zip(marked, mvecs):
            acc = lang.accept
            if acc[vec[0]]:
                fail('%r marked(%d,%s) accepts unmarked %r' % (pattern, g, edge, word))
            pos = -1
            if m is not None and m.group(g) is not None:
                pos = span_of(m, g, edge)
            for e in range(n + 1):
                if acc[vec[e + 1]] != (e == pos):
                    fail('%r marked(%d,%s) wrong on %r marker at %d (re: %d)'
                         % (pattern, g, edge, word, e, pos))
        if n <= 2:
            for e in range(n + 1):
                w1 = word[:e] + U.marker_char + word[e:]
                for lang in unmarked:
                    if lang.accepts(w1):
                        fail('%r unmarked language accepts marked %r' % (pattern, w1))
                for e2 in range(len(w1) + 1):
                    w2 = w1[:e2] + U.marker_char + w1[e2:]
                    for lang, g, edge in marked:
                        if lang.accepts(w2):
                            fail('%r marked language accepts 2 markers %r'
                                 % (pattern, w2))
        if n == L:
            return
        for k in range(K):
            ch = reps[k]
            us2 = [lang.trans[s][k] for lang, s in zip(unmarked, ustates)]
            mv2 = []
            for (lang, _g, _e), vec in zip(marked, mvecs):
                tr = lang.trans
                nv = [tr[s][k] for s in vec]
                nv.append(tr[nv[0]][MK])
                mv2.append(nv)
            visit(word + ch, us2, mv2)

    visit('', [lang.start for lang in unmarked],
          [[lang.start, lang.trans[lang.start][MK]] for lang, _g, _e in marked])

    def check_word(word, what):
        n = len(word)
        m = cre.match(word)
        if l_match.accepts(word) != (m is not None) or \
           l_whole.accepts(word) != (m is not None and m.group() == word) or \
           l_full.accepts(word) != (cre.fullmatch(word) is not None):
            fail('%r %s word %r' % (pattern, what, word))
        for lang, g, edge in marked:
            pos = -1
            if m is not None and m.group(g) is not None:
                pos = span_of(m, g, edge)
            for e in range(n + 1):
                if lang.accepts(word[:e] + U.marker_char + word[e:]) != (e == pos):
                    fail('%r %s word %r marked(%d,%s) at %d' %
                         (pattern, what, word, g, edge, e))
        for lang, g in absent:
            if lang.accepts(word) != (m is not None and m.group(g) is None):
                fail('%r %s word %r absent(%d)' % (pattern, what, word, g))

    # non-representative members of the classes
    rnd = random.Random(12345)
    for _ in range(300):
        word = ''
        for _i in range(rnd.randint(0, 7)):
            cls = U.classes[rnd.randrange(K)]
            lo, hi = cls[rnd.randrange(len(cls))]
            word += chr(rnd.randint(lo, hi))
        if U.marker_char not in word:
            check_word(word, 'random-member')

    # long words: random walks through the fullmatch DFA (so that deep parts
    # of the pattern are reached), half of them mutated
    dead = l_full._dead_states()
    nlong = 0
    for _ in range(400 if ngroups <= 3 else 1200):
        s, syms = l_full.start, []
        while len(syms) < 18:
            if l_full.accept[s] and rnd.random() < 0.25:
                break
            nxt = [k for k in range(K) if l_full.trans[s][k] not in dead]
            if not nxt:
                break
            k = rnd.choice(nxt)
            syms.append(k)
            s = l_full.trans[s][k]
        r = rnd.random()
        if r < 0.5 and syms:
            i = rnd.randrange(len(syms))
            how = rnd.randrange(3)
            if how == 0:
                syms[i] = rnd.randrange(K)
            elif how == 1:
                del syms[i]
            else:
                syms.insert(i, rnd.randrange(K))
        elif r < 0.7:
            syms.extend(rnd.randrange(K) for _i in range(rnd.randint(1, 3)))
        nlong += 1
        check_word(U.decode(syms), 'long')

    # algebraic sanity on this pattern
    if equivalent(l_end.erase_marker(), l_match) is not None:
        fail('%r erase_marker(end_marked) != lang_match' % pattern)
    if subset(l_end, l_match.with_marker_anywhere()) is not None:
        fail('%r end_marked not within match.with_marker_anywhere' % pattern)
    if subset(l_whole, l_full) is not None or subset(l_full, l_match) is not None:
        fail('%r whole <= full <= match violated' % pattern)
    if not (l_match & ~l_match).is_empty():
        fail('%r L & ~L not empty' % pattern)
    if equivalent(l_match | ~l_match, Lang.all_words(U)) is not None:
        fail('%r L | ~L not everything' % pattern)
    print('ok  %-48.48s K=%2d len<=%d words=%6d +%d long build=%.2fs total=%.1fs'
          % (pattern if flags == 0 else '%s /%d' % (pattern, flags), K, L,
             nwords, nlong, build, time.time() - t0))


def check_known_facts():
    for name, p, expect_equal in (('basic-key', BASIC_KEY, True),
                                  ('dotted-name', DOTTED_NAME, True),
                                  ('dotted-suffix', DOTTED_SUFFIX, True),
                                  ('ipaddr-or-hostname', IPADDR, False)):
        t = time.time()
        U = make_alphabet([p])
        w = equivalent(lang_match_then_whole(p, universe=U),
                       lang_fullmatch(p, universe=U))
        dt = time.time() - t
        print('fact %-20s match_then_whole == fullmatch: %-5s witness=%r (%.2fs)'
              % (name, w is None, w, dt))
        if (w is None) != expect_equal:
            fail('known fact %s: witness %r' % (name, w))
        if w is not None:
            m = re.compile(p).match(w)
            if len(w) != 3 or re.fullmatch(p, w) is None or \
               (m is not None and m.group() == w):
                fail('ipaddr witness %r is not a genuine 3-char witness' % w)
        if dt > 2:
            fail('query on %s took %.1fs' % (name, dt))
    # specs written as regexes, incl. a marked spec
    p = r'(?P<key>[^\s()]+)\s*(?P<value>[^\s].*)?$'
    spec_rx = r'[^\s()]+' + rx.DEFAULT_MARKER + r'[\s\S]*'
    U = make_alphabet([p, spec_rx], marker=True)
    got = lang_group_marked(p, 'key', 'end', universe=U)
    spec = lang_fullmatch(spec_rx, universe=U)
    w = subset(got, spec)
    if w is not None:
        fail('key-end spec not satisfied: %r' % w)
    w = subset(spec, got)      # not every such word matches (e.g. 'a‸(' )
    if w is None:
        fail('converse of the key-end spec should not hold')
    else:
        m = re.match(p, w.replace(rx.DEFAULT_MARKER, ''))
        if m is not None and m.end('key') == w.index(rx.DEFAULT_MARKER):
            fail('spec-minus-got witness %r is not genuine' % (w,))
    print('marked spec check ok (counterexample to converse: %r)' % w)
    # mismatching alphabets are refused
    try:
        lang_match('a') & lang_match('b')
        fail('different alphabets were combined silently')
    except ValueError:
        pass
    try:
        lang_match(r'[a-c]', universe=make_alphabet([r'a']))
        fail('alphabet that splits a class was accepted')
    except ValueError:
        pass
    A = rx.from_predicate_classes(extra_sets=[r'[\s()]', {'x', 'y'}, str.isupper],
                                  patterns=[r'\w+'])
    for ch in 'x( Qq_\n\t9':
        k = A.class_of(ch)
        for member in A.members(k, 50):
            if (member in 'xy') != (ch in 'xy') or member.isupper() != ch.isupper() \
               or bool(re.match(r'[\s()]', member)) != bool(re.match(r'[\s()]', ch)) \
               or bool(re.match(r'\w', member)) != bool(re.match(r'\w', ch)):
                fail('from_predicate_classes: class of %r contains %r' % (ch, member))
    if not uses_anchors(r'^a') or not uses_anchors(r'\Aa') or not uses_anchors(r'a\b') \
       or not uses_anchors(r'(?<=a)b') or uses_anchors(r'a$') or uses_anchors(r'a\Z'):
        fail('uses_anchors')


def check_unsupported():
    bad = [(r'(a)\1', 0), (r'a(?=b)', 0), (r'a(?!b)', 0), (r'(?<=a)b', 0),
           (r'(a)?(?(1)b|c)', 0), (r'a', re.IGNORECASE), (r'(?i)a', 0),
           (r'^a', re.MULTILINE), (r'\bfoo', 0), (r'a\B', 0), (r'(a*)*', 0),
           (r'(a|)*', 0), (r'(a?){2}', 0), (r'(?:a*)+', 0), (r'a*+', 0),
           (r'(?>a)b', 0), (r'(?i:a)b', 0), (r'(', 0), (b'a', 0), (r'(^)*', 0),
           (r'a', re.LOCALE)]
    for p, f in bad:
        try:
            lang_match(p, f)
        except Unsupported:
            continue
        except Exception as e:            # noqa
            fail('pattern %r raised %r instead of Unsupported' % (p, e))
            continue
        fail('pattern %r was not rejected' % (p,))
    try:
        lang_end_marked('a' + rx.DEFAULT_MARKER)
        fail('marker literal in analysed pattern accepted')
    except Unsupported:
        pass
    print('unsupported constructs rejected: %d' % len(bad))


def main():
    t0 = time.time()
    check_categories()
    check_unsupported()
    for p in LIVE + ADVERSARIAL:
        check_pattern(p)
    for p, f in WITH_FLAGS:
        check_pattern(p, f)
    check_known_facts()
    dt = time.time() - t0
    if failures:
        print('%d FAILURE(S) in %.1fs' % (len(failures), dt))
        return 1
    print('ALL OK in %.1fs' % dt)
    return 0


if __name__ == '__main__':
    sys.exit(main())
