"""Contract declaration API used by the sidecar files under /verif/contracts.

Clauses are Python *expressions given as strings*: the verifier parses them
with ``ast`` and evaluates them symbolically with the same evaluator that
executes the real code; the replay harness evaluates the very same strings
natively with ``eval``.  One source of truth per clause.

    contract("substitution._split",
             params={"s": "str"},
             returns="Tuple[str, Opt[str], Opt[str], Opt[str], Opt[str]]",
             requires=[...],
             ensures=[Clause("result == split_spec(s)", carries="C04", label="SplitSpec")],
             raises=[Raise("ZConfig.SubstitutionSyntaxError", when="split_err(s)", carries="C04")],
             modifies=[...],
             loops=[Loop(invariant=[...], decreases="...", locals={...})])
"""

REGISTRY = {}        # qualname -> Contract
MODELS = {}          # class qualname -> Model
SPEC_MODULES = []    # imported spec modules (python modules)
PRIMS = {}           # name -> Prim (uninterpreted spec primitive)
INLINE = set()       # qualnames of real functions that are inlined, not contracted
LEMMAS = {}          # name -> Lemma
GLOBAL_CONSTS = {}   # qualname of a module global -> type string (a distinguished constant of that type)


class Clause:
    def __init__(self, expr, carries=None, label=None, witness=None, assumed=False):
        self.assumed = assumed          # a `requires` clause that call sites do NOT have to establish (listed as an assumption)
        self.witness = witness or {}    # exists-variable -> expression over the function's final locals
        self.expr = expr
        self.carries = carries          # "C04" or "C04,C15" or None (= internal)
        self.label = label or expr[:40]

    @staticmethod
    def of(x):
        if isinstance(x, Clause):
            return x
        if isinstance(x, tuple):
            return Clause(x[1], carries=x[0])
        return Clause(x)


class Raise:
    """Exceptional postcondition.

    cls    : exception class ('ZConfig.ConfigurationSyntaxError', 'ValueError', ...)
    when   : condition over the PRE-state under which exactly this clause fires
             (None: may fire non-deterministically - only for assumed contracts)
    then   : clauses over (params, old(), exc) that hold when it fires
    """

    def __init__(self, cls, when=None, then=(), carries=None, label=None, bind=None, witness=None):
        self.cls = cls
        self.when = when
        self.then = [Clause.of(c) for c in then]
        self.carries = carries
        self.label = label or (cls.split('.')[-1] + (':' + when[:30] if when else ''))
        self.bind = bind
        self.witness = witness or {}


class Loop:
    def __init__(self, invariant=(), decreases=None, locals=None, index=None, label=None,
                 modifies=None, hints=()):
        self.invariant = [Clause.of(c) for c in invariant]
        self.decreases = decreases
        self.locals = locals or {}      # declared types of locals at the loop head
        self.index = index              # name of the ghost index for `for` loops
        self.label = label
        self.modifies = modifies
        self.hints = list(hints)     # expressions evaluated at the end of each iteration (unfolding triggers)


class At:
    """Ghost assertion attached to a statement of the real body, keyed by the
    source text of a call target (`call='self.context.startSection'`) or by a
    statement kind and ordinal (`stmt='Pass', nth=0`).  At a call, `args` is the
    tuple of evaluated positional arguments."""

    def __init__(self, expr, call=None, stmt=None, nth=0, carries=None, label=None, test=None):
        self.expr = expr
        self.call = call
        self.stmt = stmt
        self.nth = nth
        # for `If` / `Assert` / `While` statements: the source text of the test; when given, the
        # statement is found by (kind, test text) and `nth` counts among THOSE statements only, so an
        # unrelated statement inserted or removed elsewhere does not move the assertion (a statement
        # that is not found makes the function undecided, never a verdict)
        self.test = test
        self.carries = carries
        self.label = label or (call or stmt or '')[-30:]


class Contract:
    def __init__(self, qualname, params=None, returns='None', requires=(), ensures=(),
                 raises=(), modifies=(), loops=(), assumed=False, pure=False,
                 self_type=None, ghost=None, fresh_result=False, notes='',
                 total=True, locals=None, may_raise_other=False, decreases=None,
                 asserts=(), frame_carries=None, escape_carries=None, hints=(), inst=(),
                 static_ensures=(), any_kwargs=False, inline_calls=(), no_alias_stores=False, ghost_entry=()):
        self.ghost_entry = list(ghost_entry)   # ghost assignments [(field of self, literal expr)] executed on entry to the body
        self.qualname = qualname
        self.params = dict(params or {})
        self.returns = returns
        self.requires = [Clause.of(c) for c in requires]
        self.ensures = [Clause.of(c) for c in ensures]
        # facts about THIS body only (e.g. the exact class it constructs): proved like ensures, but
        # assumed only at static calls `Class.method(self, ..)`, never through dynamic dispatch
        self.static_ensures = [Clause.of(c) for c in static_ensures]
        self.raises = list(raises)
        self.modifies = list(modifies)
        self.loops = list(loops)
        self.assumed = assumed
        self.pure = pure
        self.self_type = self_type
        self.fresh_result = fresh_result
        self.notes = notes
        self.locals = locals or {}
        self.decreases = decreases
        self.asserts = list(asserts)
        self.hints = list(hints)     # expressions evaluated at every exit (unfolding triggers)
        self.inst = list(inst)       # extra terms at which quantified assumptions are instantiated
        self.frame_carries = frame_carries
        self.no_alias_stores = no_alias_stores   # `o.f = p.g` (g a list / dict field of ANOTHER object) is an ownership violation here
        self.inline_calls = tuple(inline_calls)   # callees executed from their real body inside THIS function only
        self.any_kwargs = any_kwargs       # (assumed externals such as functools.partial) accepts any keyword
        self.escape_carries = escape_carries


def contract(qualname, **kw):
    c = Contract(qualname, **kw)
    REGISTRY[qualname] = c
    return c


def assumed(qualname, **kw):
    kw['assumed'] = True
    return contract(qualname, **kw)


def inline(*qualnames):
    INLINE.update(qualnames)


class Model:
    def __init__(self, qualname, fields=None, invariant=(), bases=(), iterates=None,
                 external=False, optional=None, defaults=None, ghost_fields=(), late_fields=(),
                 abstract=False, dict_field=None):
        self.qualname = qualname
        self.fields = dict(fields or {})
        self.invariant = [Clause.of(c) for c in invariant]
        self.bases = list(bases)        # for virtual (non-repo) classes
        self.iterates = iterates
        self.external = external
        self.optional = dict(optional or {})     # attribute -> presence flag field
        self.defaults = dict(defaults or {})     # field -> expression (value at allocation)
        self.ghost_fields = tuple(ghost_fields)
        self.late_fields = tuple(late_fields)
        self.abstract = abstract         # an interface: no object has exactly this class
        self.dict_field = dict_field     # class derives from dict: the Map field that stands for the mapping itself


def model(qualname, **kw):
    m = Model(qualname, **kw)
    MODELS[qualname] = m
    return m


class Prim:
    """Uninterpreted specification primitive with a native definition.

    sig   : "str, int -> str"
    native: python callable used by replays / cross-checks
    axioms: list of expression strings universally quantified over the
            parameters named in `args`; instantiated at every application
            that occurs in an obligation.
    smt   : optional callable(z3 terms...) -> z3 term giving an exact definition
    """

    def __init__(self, name, sig, native=None, args=None, axioms=(), smt=None):
        self.name = name
        self.sig = sig
        self.native = native
        self.args = args
        self.axioms = list(axioms)
        self.smt = smt


def prim(name, sig, native=None, args=None, axioms=(), smt=None):
    p = Prim(name, sig, native, args, axioms, smt)
    PRIMS[name] = p
    return p


def spec_module(mod):
    if mod not in SPEC_MODULES:
        SPEC_MODULES.append(mod)


class Lemma:
    def __init__(self, name, params, requires=(), ensures=(), carries=None, proof=None,
                 induction=None):
        self.name = name
        self.params = params
        self.requires = [Clause.of(c) for c in requires]
        self.ensures = [Clause.of(c) for c in ensures]
        self.carries = carries
        self.proof = proof
        self.induction = induction


def lemma(name, params, **kw):
    l = Lemma(name, params, **kw)
    LEMMAS[name] = l
    return l


def shared_list(name, elem):
    """A list object that is genuinely shared between objects (heap-allocated,
    aliasable): Ref[list:<name>] with one field `items: Seq[elem]`."""
    return model('list:' + name, fields={'items': 'Seq[%s]' % elem}, external=True)


def shared_dict(name, k, v):
    return model('dict:' + name, fields={'items': 'Map[%s,%s]' % (k, v)}, external=True)


EXT_VALUES = {}      # dotted name of a value of an external module (socket.AF_INET, os.sep) -> (type, literal or None)
GLOBAL_ALIASES = {}  # name usable in contract clauses -> qualname of the module global


def global_const(qualname, ty, alias=None):
    """A module-level sentinel object (`_marker = object()`): a distinguished constant."""
    GLOBAL_CONSTS[qualname] = ty
    if alias:
        GLOBAL_ALIASES[alias] = qualname


def ext_value(dotted, ty, literal=None):
    """A constant of an external module used as a value (socket.AF_INET: opaque; os.sep: '/')."""
    EXT_VALUES[dotted] = (ty, literal)
