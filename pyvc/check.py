"""vcheck: decide one property.

  python3-vt -m pyvc.check C04 --tier quick|thorough

Exit 0: every obligation discharged (or undecided ones passed their bounded
stand-in); 1: violation (prints `VIOLATION property=<id> replay=<path>`);
3: checker fault.  See DESIGN.md section 3.
"""
import argparse
import importlib
import json
import multiprocessing as mp
import os
import subprocess
import sys
import time
import traceback

HERE = os.path.dirname(os.path.dirname(os.path.abspath(__file__)))
if HERE not in sys.path:
    sys.path.insert(0, HERE)

PY_VENV = '/venv/bin/python'


def repo_root():
    return os.environ.get('VERIF_REPO', '/repo')


def load_contracts():
    import contracts.props as P
    for m in P.CONTRACT_MODULES:
        importlib.import_module(m)
    return P


# ---------------------------------------------------------------------------
# generation (worker process): function -> picklable obligations
# ---------------------------------------------------------------------------
def gen_worker(qual):
    from pyvc.executor import Executor
    from pyvc import backend, api
    import z3
    load_contracts()
    inline_extra = ()
    if isinstance(qual, tuple):
        qual, inline_extra = qual
        api.INLINE.update(inline_extra)      # (worker process only) escalation: helper bodies instead of contracts
    t0 = time.time()
    out = {'function': qual, 'obligations': [], 'canary': []}
    try:
        ex = Executor()
        rep = ex.generate(qual)
        out['status'] = rep.status
        out['reason'] = rep.reason
        out['src'] = rep.src.describe() if rep.src else None
        out['paths'] = rep.paths
        out['inlined'] = sorted(rep.inlined)
        out['used_contracts'] = sorted(rep.used_contracts)
        out['undeclared_loops'] = rep.undeclared_loops
        for ob in rep.obligations:
            claim = z3.simplify(ob.claim)
            d = {'id': ob.id, 'func': ob.func, 'kind': ob.kind, 'label': ob.label, 'carries': ob.carries,
                 'claim': ob.info.get('claim', ob.label), 'line': ob.lineno, 'fp': ob.fp}
            d['definite'] = bool(z3.is_false(claim))      # `this statement always fails when reached`
            if z3.is_true(claim):
                d['trivial'] = True
            else:
                d['smt2'] = backend.to_smt2(ob.formula())
                if ob.has_quantified_assumptions():
                    d['smt2_light'] = backend.to_smt2(ob.formula(light=True))
                    if ob.has_quantified_facts():
                        d['smt2_qf'] = backend.to_smt2(ob.formula(light='qf'))
                if len(ob.pc) > 12:
                    d['smt2_coi'] = backend.to_smt2(ob.formula_coi())
            out['obligations'].append(d)
        if rep.status == 'generated':
            for ob in (rep.canary or []):
                out['canary'].append({'id': ob.id, 'smt2': backend.to_smt2(list(ob.pc))})
    except Exception as exc:
        out['status'] = 'error'
        out['reason'] = 'generator crashed: %s' % ''.join(traceback.format_exception_only(type(exc), exc)).strip()
        out['traceback'] = traceback.format_exc()[-2000:]
    out['gen_s'] = round(time.time() - t0, 2)
    return out


def canary_worker(job):
    """A canary path condition must be satisfiable for at least one exit path."""
    from pyvc import backend
    oid, smt2, timeout_ms = job
    r = backend.solve_one((oid, smt2, timeout_ms, None))
    return {'id': oid, 'status': r['status']}


# ---------------------------------------------------------------------------
def run_subprocess(cmd, timeout, env=None):
    t0 = time.time()
    e = dict(os.environ)
    if env:
        e.update(env)
    try:
        p = subprocess.run(cmd, capture_output=True, text=True, timeout=timeout, cwd=HERE, env=e)
        return p.returncode, p.stdout, p.stderr, time.time() - t0
    except subprocess.TimeoutExpired as ex:
        return -9, ex.stdout or '', 'timeout', time.time() - t0


def start_subprocess(cmd, env=None):
    e = dict(os.environ)
    if env:
        e.update(env)
    return subprocess.Popen(cmd, stdout=subprocess.PIPE, stderr=subprocess.PIPE, text=True, cwd=HERE, env=e)


def load_known():
    p = os.path.join(HERE, 'known_findings.json')
    if not os.path.exists(p):
        return []
    with open(p) as f:
        return json.load(f).get('findings', [])


def load_lock():
    p = os.path.join(HERE, 'obligations.lock')
    if not os.path.exists(p):
        return None
    with open(p) as f:
        return json.load(f)


def clause_key(ob):
    return '%s#%s:%s' % (ob['func'], ob['kind'], ob['label'])


def main(argv=None):
    ap = argparse.ArgumentParser()
    ap.add_argument('prop')
    ap.add_argument('--tier', default=os.environ.get('VERIF_TIER', 'quick'))
    ap.add_argument('--seed', type=int, default=int(os.environ.get('VERIF_SEED', '0')))
    ap.add_argument('--no-standin', action='store_true')
    ap.add_argument('--write-lock', action='store_true')
    a = ap.parse_args(argv)
    t_start = time.time()
    P = load_contracts()
    from pyvc import api, backend
    prop = a.prop
    spec = P.PROPS.get(prop)
    if spec is None:
        print('no check registered for', prop)
        return 3
    tier = a.tier
    # budgets sized so that a verdict does not flip when all cores are busy (almost every query
    # answers in well under a second; the slowest discharged one takes ~12 s on an idle machine)
    timeout_ms = 30000 if tier == 'quick' else 120000
    str_timeout_ms = 120000 if tier == 'quick' else 240000     # (the slowest discharged string obligation on the pinned tree needs ~80 s of cvc5: addValue, wildcard multikey)
    os.makedirs(os.path.join(HERE, 'evidence'), exist_ok=True)
    os.makedirs(os.path.join(HERE, 'replays'), exist_ok=True)

    # --- start the side processes -------------------------------------------------
    side = {}
    if spec.get('rx'):
        side['rx'] = start_subprocess([PY_VENV, '-m', 'pyvc.rxcheck', 'contracts.rxspecs'] + list(spec['rx']))
    if spec.get('bind'):
        side['bind'] = start_subprocess([PY_VENV, '-m', 'pyvc.bindcheck', 'contracts.bindings'] + list(spec['bind']))
    standin_out = os.path.join(HERE, 'evidence', '.%s.standin.json' % prop)

    def start_standin():
        # (started after the generation phase: symbolic execution and the stand-in's process pool
        # would otherwise oversubscribe the cores)
        if spec.get('standin') and not a.no_standin:
            if os.path.exists(standin_out):
                os.unlink(standin_out)
            side['standin'] = start_subprocess([PY_VENV, '-m', 'standins.run', prop, '--tier', tier,
                                                '--seed', str(a.seed), '--out', standin_out])

    # --- generate ----------------------------------------------------------------
    funcs = list(spec.get('functions', []))
    ctx = mp.get_context('fork')
    procs = min(16, max(1, len(funcs)))
    gens = []
    if funcs:
        with ctx.Pool(procs) as pool:
            gens = pool.map(gen_worker, funcs, chunksize=1)
    start_standin()
    # --- solve ---------------------------------------------------------------------
    jobs = []
    for g in gens:
        for ob in g['obligations']:
            if 'smt2' in ob:
                to = str_timeout_ms if backend.uses_strings(ob['smt2']) else timeout_ms
                payload = (ob['smt2_light'], ob['smt2'], ob.get('smt2_qf')) if 'smt2_light' in ob else ob['smt2']
                if 'smt2_coi' in ob:
                    payload = (ob['smt2_coi'], ob.get('smt2_light'), ob['smt2'], ob.get('smt2_qf'))
                jobs.append((ob['id'] + '#' + str(len(jobs)), payload, to, None))
                ob['_job'] = jobs[-1][0]
    canary_jobs = []
    for g in gens:
        for cjob in g['canary']:
            canary_jobs.append((g['function'] + '|' + cjob['id'] + '#' + str(len(canary_jobs)), cjob['smt2'], 3000))
    results = {}
    canary_results = []
    if jobs or canary_jobs:
        with ctx.Pool(16) as pool:
            r1 = pool.map_async(backend.solve_one, jobs, chunksize=1)
            r2 = pool.map_async(canary_worker, canary_jobs, chunksize=1)
            for r in r1.get():
                results[r['id']] = r
            canary_results = r2.get()
    solver_time = sum(r['time'] for r in results.values())
    backends = {}
    for g in gens:
        for ob in g['obligations']:
            if ob.get('trivial'):
                ob['result'] = {'status': 'unsat', 'backend': 'simplifier', 'time': 0.0}
            else:
                ob['result'] = results[ob.pop('_job')]
            b = ob['result'].get('backend') or 'none'
            backends.setdefault(b, {'count': 0, 'seconds': 0.0})
            backends[b]['count'] += 1
            backends[b]['seconds'] = round(backends[b]['seconds'] + ob['result']['time'], 3)
    # thorough: second opinion
    cross = {'checked': 0, 'disagree': []}
    if tier == 'thorough':
        cj = []
        for g in gens:
            for ob in g['obligations']:
                if 'smt2' in ob and ob['result']['status'] == 'unsat':
                    cj.append((ob['id'], ob['smt2'], 30000, ob['result'].get('backend')))
        if cj:
            with ctx.Pool(16) as pool:
                for r in pool.map(backend.cross_check, cj, chunksize=1):
                    if r['status'] in ('sat', 'unsat'):
                        cross['checked'] += 1
                    if r['status'] == 'sat':
                        cross['disagree'].append(r['id'])

    # --- collect side processes -----------------------------------------------------
    rx_entries = []
    rx_error = None
    if 'rx' in side:
        out, err = side['rx'].communicate(timeout=600)
        try:
            rx_entries = json.loads(out)
        except Exception:
            rx_error = (err or out)[-1500:]
    standin = None
    standin_error = None
    if 'standin' in side:
        try:
            out, err = side['standin'].communicate(timeout=3600 if tier == 'thorough' else 900)
            if os.path.exists(standin_out):
                with open(standin_out) as f:
                    standin = json.load(f)
                os.unlink(standin_out)
            else:
                standin_error = (err or out)[-1500:]
        except subprocess.TimeoutExpired:
            side['standin'].kill()
            standin_error = 'stand-in timed out'

    # --- escalation (DESIGN 3.1 / 10.4): a helper whose own contract is refuted -------------
    # A helper's contract is an internal stepping stone, stronger than the property.  When it is
    # refuted AND the refutation replays on the real helper, the CALLERS named in spec['helpers']
    # are replayed natively under their own executable contracts (the witness lifted, then a
    # bounded search): a caller input that fails is the violation; if none fails the refutation
    # is internal contract drift (undecided; the bounded stand-in decides).  See handle_sat.
    drift = {'helpers': spec.get('helpers') or {}, 'escalations': []}

    # --- verdicts -------------------------------------------------------------------------
    known = [k for k in load_known() if k.get('status', 'open') == 'open']
    lock = load_lock() or {}
    locked = set(lock.get(prop, {}).get('clauses', []))
    violations = []       # dicts with 'what', 'replay'
    known_hits = []
    undecided = []
    faults = []
    n_obl = 0
    n_dis = 0
    samples = []
    functions_ev = []
    clause_status = {}
    other_prop = [0]
    needs_q = set()
    drift_notes = []
    locked_q = set(lock.get(prop, {}).get('needs_quantifiers', []))
    for g in gens:
        fstat = {'name': g['function'], 'status': None, 'obligations': len(g['obligations']),
                 'paths': g.get('paths'), 'gen_s': g['gen_s']}
        if g.get('src'):
            fstat.update(g['src'])
        if g['status'] != 'generated':
            fstat['status'] = 'undecided'
            fstat['reason'] = g['reason']
            if g['status'] == 'error':
                faults.append('%s: %s' % (g['function'], g['reason']))
                fstat['traceback'] = g.get('traceback')
            undecided.append({'function': g['function'], 'reason': g['reason']})
            functions_ev.append(fstat)
            # obligations recorded BEFORE generation stopped that are false whatever the rest of the body
            # does (a write to an attribute the frame cannot contain) are still decided
            for ob in g['obligations']:
                if ob.get('definite') and ob['kind'] == 'frame' and (ob.get('result') or {}).get('status') == 'sat':
                    n_obl += 1
                    handle_sat(prop, g, ob, clause_key(ob), locked, known, violations, known_hits, undecided, tier, drift, drift_notes)
            continue
        # canary: at least one exit path feasible
        cans = [c for c in canary_results if c['id'].startswith(g['function'] + '|')]
        if cans and not any(c['status'] == 'sat' for c in cans):
            if all(c['status'] == 'unsat' for c in cans):
                faults.append('canary verified for %s: contract or encoding is contradictory' % g['function'])
            fstat['canary'] = 'not-refuted'
        else:
            fstat['canary'] = 'refuted (ok)'
        all_ok = True
        for ob in g['obligations']:
            car = ob.get('carries')
            if car and prop not in [x.strip() for x in car.split(',')]:
                # a clause that transcribes ANOTHER property (and only that): decided by that
                # property's own check, not counted or reported here
                other_prop[0] += 1
                continue
            n_obl += 1
            st = ob['result']['status']
            ck = clause_key(ob)
            if st == 'unsat':
                n_dis += 1
                clause_status.setdefault(ck, True)
                if 'smt2_light' in ob and not ob['result'].get('variant'):
                    needs_q.add(ck)
                if len(samples) < 6 and not ob.get('trivial'):
                    samples.append({'id': ob['id'], 'claim': ob['claim'], 'backend': ob['result']['backend'],
                                    'seconds': round(ob['result']['time'], 3)})
            elif st == 'sat' and 'modulo quantifier instantiation' in (ob['result'].get('variant') or '') and ck in locked_q:
                # on the pinned tree this clause was provable only with solver-side quantifier
                # instantiation; now the quantified form timed out: undecided, not refuted
                all_ok = False
                clause_status[ck] = False
                undecided.append({'function': g['function'], 'obligation': ob['id'],
                                  'reason': 'quantified form undecided within the budget (the instantiated form alone is '
                                            'refutable, as it already was on the pinned tree)'})
            elif st == 'sat':
                all_ok = False
                clause_status[ck] = False
                handle_sat(prop, g, ob, ck, locked, known, violations, known_hits, undecided, tier, drift, drift_notes)
            elif st == 'conflict':
                faults.append('back ends disagree on ' + ob['id'])
                all_ok = False
            else:
                all_ok = False
                clause_status[ck] = False
                undecided.append({'function': g['function'], 'obligation': ob['id'],
                                  'reason': 'solver: %s' % json.dumps(ob['result'].get('tried', []))[:300]})
        fstat['status'] = 'proved' if all_ok else 'not-proved'
        fstat['inlined'] = g.get('inlined')
        functions_ev.append(fstat)
    if cross['disagree']:
        faults.append('cross-check disagreement: ' + ', '.join(cross['disagree'][:5]))

    # regex obligations
    rx_ev = []
    if rx_error:
        undecided.append({'function': 'rx', 'reason': rx_error})
    for e in rx_entries:
        if 'error' in e:
            undecided.append({'function': e['id'], 'reason': e['error']})
            rx_ev.append(e)
            continue
        for c in e['checks']:
            n_obl += 1
            oid = '%s#rx:%s' % (e['id'], c['label'])
            if c['status'] == 'discharged':
                n_dis += 1
                if len(samples) < 8:
                    samples.append({'id': oid, 'claim': 'live pattern %r has the %s language %r' % (
                        e.get('pattern'), c['kind'], c.get('spec')), 'backend': 'automata (all lengths)',
                        'seconds': e['time']})
            elif c['status'] == 'refuted':
                rp = write_replay(prop, oid, {
                    'property': prop, 'obligation': oid, 'function': e['id'], 'pattern': e.get('pattern'),
                    'kind': c['kind'], 'spec': c.get('spec'), 'witness': c.get('witness'),
                    'in_live': c.get('in_live'), 'in_spec': c.get('in_spec'),
                    'replay_cmd': 'cd /verif && %s -m pyvc.rxcheck contracts.rxspecs %s' % (PY_VENV, e['id'])})
                kf = match_known(known, oid, c.get('witness'))
                if kf:
                    known_hits.append(kf)
                else:
                    violations.append({'what': '%s: shortest distinguishing word %r' % (oid, c.get('witness')),
                                       'replay': rp, 'input': c.get('witness')})
            else:
                undecided.append({'function': e['id'], 'obligation': oid, 'reason': c.get('reason')})
        rx_ev.append(e)

    # binding obligations (finite facts about live objects)
    bind_ev = []
    if 'bind' in side:
        out, err = side['bind'].communicate(timeout=300)
        try:
            bind_ev = json.loads(out)
        except Exception:
            undecided.append({'function': 'bindings', 'reason': (err or out)[-1500:]})
        for e in bind_ev:
            n_obl += 1
            oid = e['id'] + '#bind'
            if e['status'] == 'discharged':
                n_dis += 1
            else:
                rp = write_replay(prop, oid, {
                    'property': prop, 'obligation': oid, 'expr': e['expr'], 'expected': e.get('expected'),
                    'observed': e.get('observed'),
                    'replay_cmd': 'cd /verif && %s -m pyvc.bindcheck contracts.bindings %s' % (PY_VENV, e['id'])})
                kf = match_known(known, oid, None)
                if kf:
                    known_hits.append(kf)
                else:
                    violations.append({'what': '%s: live object is %s, expected %s' % (
                        oid, e.get('observed'), e.get('expected')), 'replay': rp, 'input': e['expr']})

    # bounded stand-in
    standin_ev = None
    if standin is not None:
        standin_ev = {k: standin.get(k) for k in ('bound', 'rule', 'evaluations', 'distinct_nontrivial', 'wall_s')}
        standin_ev['violations'] = len(standin.get('violations', []))
        standin_ev['samples'] = standin.get('samples', [])[:3]
        for v in standin.get('violations', []):
            kf = match_known_sig(known, v['sig'])
            if kf:
                known_hits.append(kf)
                continue
            rp = write_replay(prop, 'standin:' + v['sig'], {
                'property': prop, 'obligation': 'bounded stand-in at the observation point', 'sig': v['sig'],
                'standin_replay': v, 'replay_cmd': 'cd /verif && %s -m standins.run %s --tier %s --seed %d' % (
                    PY_VENV, prop, tier, a.seed)})
            violations.append({'what': 'bounded stand-in: %s: %s' % (v['sig'], v['what']), 'replay': rp,
                               'input': v.get('input')})
    elif standin_error:
        undecided.append({'function': 'standin', 'reason': standin_error})

    wall = round(time.time() - t_start, 2)
    # evidence -------------------------------------------------------------------------
    assumed = sorted(q for q, c in api.REGISTRY.items() if c.assumed and any(
        q in (g.get('used_contracts') or []) for g in gens))
    proved_all = (n_obl > 0 and n_dis == n_obl and not undecided and not faults)
    try:
        from tools.manifest_texts import TEXTS
        claimed = TEXTS.get(prop, {}).get('category', 'other')
    except Exception:
        claimed = 'other'
    # `proof` only where the manifest claims proof AND every obligation of this run was discharged;
    # properties decided (partly) by the bounded stand-in report level `other`
    level = 'proof' if (proved_all and claimed == 'proof') else 'other'
    coverage = {
        'obligations': n_obl, 'discharged': n_dis,
        'checker_cmd': 'cd /verif && ./vcheck %s --tier %s' % (prop, tier),
        'trusted_base': ['pyvc (home-built VC generator, /verif/pyvc)', 'z3 5.1.0', 'cvc5 1.0.3',
                         'pyvc/rxauto.py (leftmost-first automata)', 'CPython re engine semantics',
                         'assumed contracts listed under assumed_contracts'],
        'functions': functions_ev,
        'regex_obligations': rx_ev,
        'binding_obligations': bind_ev,
        'backends': backends, 'solver_time_s': round(solver_time, 2),
        'undecided': undecided, 'bounded': standin_ev,
        'assumed_contracts': assumed,
        'assumed_requires': sorted('%s: %s' % (q, cl.label) for q, c in api.REGISTRY.items()
                                   if any(q in (g.get('used_contracts') or []) or q == g.get('function') for g in gens)
                                   for cl in c.requires if getattr(cl, 'assumed', False)),
        'inlined_helpers': sorted(set(sum([g.get('inlined') or [] for g in gens], []))),
        'python_semantics_assumed': [
            'int is mathematical; str is a sequence of code points; slicing clamps; find returns -1',
            'str.lower is an uninterpreted function (idempotent, empty iff empty); strip/rstrip uninterpreted',
            'owned containers have value semantics (ownership discipline, DESIGN 1.2a)',
            'recursion depth, memory, threads, signals not modelled'],
        'vacuity': {'canaries': {f['name']: f.get('canary') for f in functions_ev}},
        'known_findings_hit': [k.get('id') for k in known_hits],
        'clauses_of_other_properties_not_counted': other_prop[0],
        'internal_contract_drift': {'escalations': drift['escalations'], 'notes': drift_notes[:10]},
        'cross_check': cross, 'samples': samples,
        'explanation': (('all obligations discharged' + ('' if claimed == 'proof' else
                         '; but the obligations cover only part of this property - the rest is decided by the '
                         'bounded stand-in (see bounded), hence level other')) if proved_all else
                        'not every obligation was discharged in this run: %d undecided entries; the bounded '
                        'stand-in decided the run for those (see undecided / bounded)' % len(undecided)),
        'evaluations': (standin or {}).get('evaluations', 0) + n_obl,
        'distinct_nontrivial': max(2, n_dis),
    }
    ev = {'property_id': prop, 'tier': tier, 'seed': a.seed, 'level': level, 'coverage': coverage,
          'assumptions': assumed + ['assumed precondition ' + x for x in coverage['assumed_requires']] + coverage['python_semantics_assumed'], 'wall_s': wall,
          'violations': len(violations)}
    # a run against a scratch tree (seeded-change / harmless-edit self-tests) must not overwrite the
    # evidence of /repo itself, nor the lock
    scratch = os.path.realpath(repo_root()) != '/repo'
    if scratch:
        a.write_lock = False
    with open(os.path.join(HERE, 'evidence', ('.scratch_' if scratch else '') + prop + '.json'), 'w') as f:
        json.dump(ev, f, indent=1, ensure_ascii=False, default=repr)
    if a.write_lock:
        lk = load_lock() or {}
        lk[prop] = {'clauses': sorted(k for k, v in clause_status.items() if v),
                    # clauses some obligation of which was discharged only from the QUANTIFIED assumptions
                    # (solver-side instantiation): for these, a refutation of the instantiated,
                    # quantifier-free formula alone is not taken as a refutation
                    'needs_quantifiers': sorted(needs_q)}
        with open(os.path.join(HERE, 'obligations.lock'), 'w') as f:
            json.dump(lk, f, indent=1, sort_keys=True)

    # report -------------------------------------------------------------------------------
    print('%s tier=%s: %d/%d obligations discharged, %d undecided, %d violations, %d known findings, %.1fs'
          % (prop, tier, n_dis, n_obl, len(undecided), len(violations), len(known_hits), wall))
    for u in undecided[:10]:
        print('  UNDECIDED', json.dumps(u)[:300])
    for dn in drift_notes[:4]:
        print('  DRIFT', dn[:300])
    seen = set()
    for k in known_hits:
        if k.get('id') in seen:
            continue
        seen.add(k.get('id'))
        print('KNOWN-FINDING: property=%s %s' % (prop, k.get('what')))
    if faults:
        for ftxt in faults:
            print('CHECKER-FAULT:', ftxt)
        return 3
    if n_obl == 0 and standin is None:
        print('CHECKER-FAULT: zero obligations')
        return 3
    if violations:
        for v in violations:
            tail = '' if v.get('input') is not None else ' no-failing-input-found'
            print('VIOLATION property=%s replay=%s%s' % (prop, v['replay'], tail))
            print('   ', v['what'][:300])
        return 1
    return 0


def match_known(known, oid, witness):
    for k in known:
        if k.get('obligation') and oid.startswith(k['obligation']):
            return k
    return None


def match_known_sig(known, sig):
    for k in known:
        if sig in k.get('sigs', []):
            return k
    return None


def write_replay(prop, oid, payload):
    import hashlib
    name = '%s_%s.json' % (prop, hashlib.sha256(oid.encode()).hexdigest()[:10])
    path = os.path.join(HERE, 'replays', name)
    with open(path, 'w') as f:
        json.dump(payload, f, indent=1, ensure_ascii=False, default=repr)
    return path


def handle_sat(prop, g, ob, ck, locked, known, violations, known_hits, undecided, tier, drift, drift_notes):
    """A back end refuted an obligation: replay natively, search for a real
    failing input, classify (DESIGN 3.1)."""
    import contracts.props as P
    qual = g['function']
    values = ob['result'].get('values') or {}
    payload = {'property': prop, 'obligation': ob['id'], 'clause': ck, 'claim': ob['claim'],
               'function': qual, 'source': g.get('src'), 'solver': ob['result'].get('backend'),
               'solver_output': ob['result'].get('model'), 'model_values': values,
               'replay_cmd': './vcheck replay <this file>'}
    kf = None
    for k in known:
        if k.get('obligation') and ob['id'].startswith(k['obligation']):
            kf = k
    if kf:
        known_hits.append(kf)
        return
    native = P.NATIVE.get(qual)
    confirmed = None
    if native is not None:
        # 1. the model's own input
        from pyvc import api
        c = api.REGISTRY[qual]
        raw = {}
        ok = True
        for p in c.params:
            if p in values and not isinstance(values[p], dict):
                raw[p] = values[p]
            else:
                ok = False
        if ok:
            rc, out, err, _ = run_subprocess([PY_VENV, '-m', 'pyvc.replay', 'check', qual, json.dumps(raw)], 60)
            try:
                r = json.loads(out)
                if r.get('admissible') and r.get('failed'):
                    confirmed = {'args_json': raw, 'failed': r['failed'], 'observed': r['observed'], 'how': 'solver model'}
            except Exception:
                pass
        # 2. bounded native search under the executable contract
        if confirmed is None and 'domain' in native:
            rc, out, err, _ = run_subprocess([PY_VENV, '-m', 'pyvc.replay', 'search', qual,
                                              '20' if tier == 'quick' else '120'], 200)
            try:
                r = json.loads(out)
                if r.get('found'):
                    names = list(native['domain'])
                    confirmed = {'args_json': dict(zip(names, r['raw_args'])), 'failed': r['failed'],
                                 'observed': r['observed'], 'how': 'bounded search after refutation (%d tried)' % r['tried']}
                else:
                    payload['native_search'] = r
            except Exception:
                payload['native_search'] = {'error': (err or out)[-500:]}
    callers = ((drift or {}).get('helpers') or {}).get(qual)
    if confirmed is not None and callers:
        # escalation: does any caller fail ITS executable contract?  (memoised per helper)
        memo = drift.setdefault('_memo', {})
        if qual not in memo:
            memo[qual] = escalate_to_callers(qual, callers, confirmed, tier)
            drift['escalations'].append(dict(memo[qual], helper=qual))
        esc = memo[qual]
        payload['native_replay'] = confirmed
        payload['escalation'] = esc
        if esc.get('caller_fails'):
            cf = esc['caller_fails']
            rp = write_replay(prop, ob['id'], payload)
            violations.append({'what': '%s refuted (helper fails %s on %s); its caller %s fails clause(s) %s on %s -> %s' % (
                ob['id'], confirmed['failed'], json.dumps(confirmed['args_json'], ensure_ascii=False)[:80], cf['caller'],
                cf['failed'], json.dumps(cf['args_json'], ensure_ascii=False)[:120], json.dumps(cf['observed'])[:120]),
                'replay': rp, 'input': cf['args_json']})
            return
        drift_notes.append('%s refuted and reproduced on the helper (%s), but no caller (%s) fails its own executable contract '
                           '(lifted witness + bounded native search, %s inputs): internal contract drift' % (
                               ob['id'], json.dumps(confirmed['args_json'], ensure_ascii=False)[:80], ', '.join(callers),
                               esc.get('tried')))
        undecided.append({'function': qual, 'obligation': ob['id'],
                          'reason': 'helper contract refuted and reproduced on the helper, but its callers keep their '
                                    'executable contracts on every input tried (internal contract drift); decided by the bounded stand-in'})
        return
    if confirmed is not None:
        payload['native_replay'] = confirmed
        rp = write_replay(prop, ob['id'], payload)
        violations.append({'what': '%s refuted; real code fails clause(s) %s on %s -> %s' % (
            ob['id'], confirmed['failed'], json.dumps(confirmed['args_json'], ensure_ascii=False)[:120],
            json.dumps(confirmed['observed'])[:120]), 'replay': rp, 'input': confirmed['args_json']})
        return
    # not confirmed on the real code
    # hazards that are tied to ONE statement and do not depend on facts only contracts supply (an exception
    # class that escapes, a write outside the frame, a shared container, mutation of the container being
    # iterated, arity of a format / unpacking / call); index and None-dereference obligations are NOT in
    # this list: they fail for want of a contract as easily as for a defect
    structural = (ob['kind'] in ('exc-escape', 'frame', 'ownership') or
                  (ob['kind'] in ('safety', 'type') and any(t in ob['label'] for t in (
                      'iterated-unchanged', 'percent-format', 'unpack-arity', 'no-method', 'arity', 'kwarg', 'missing-arg'))))
    new_hazard = (structural and ck not in locked
                  and 'modulo quantifier instantiation' not in (ob['result'].get('variant') or ''))
    if (ob.get('definite') or new_hazard) and any(x.startswith(qual + '#') for x in locked):
        # a statement that cannot succeed (wrong number of format arguments, unpacking arity, a call
        # that does not fit the callee, ...) on a path the solver finds reachable, in a function
        # whose obligations were all discharged on the pinned tree
        rp = write_replay(prop, ob['id'], payload)
        violations.append({'what': '%s: "%s" refuted by %s - a hazard (internal error / write outside the frame / shared '
                                   'container) that no statement of this function had on the pinned tree, where all its '
                                   'obligations were discharged' % (ob['id'], ob['claim'], ob['result'].get('backend')),
                           'replay': rp, 'input': None})
        return
    if native is None and ck in locked:
        # no executable form, and this clause was discharged on the pinned tree
        rp = write_replay(prop, ob['id'], payload)
        violations.append({'what': '%s refuted by %s (clause was discharged on the pinned tree; no executable form)'
                           % (ob['id'], ob['result'].get('backend')), 'replay': rp, 'input': None})
        return
    undecided.append({'function': qual, 'obligation': ob['id'],
                      'reason': 'refuted by the solver but not reproduced on the real code (spurious model or '
                                'internal contract drift); decided by the bounded stand-in'})


def escalate_to_callers(helper, callers, confirmed, tier):
    """helper witness -> caller inputs (contracts.props.LIFT), then the caller's bounded native search."""
    import contracts.props as P
    tried = 0
    for caller in callers:
        lift = P.LIFT.get((helper, caller))
        for raw in (lift(confirmed['args_json']) if lift else []):
            tried += 1
            rc, out, err, _ = run_subprocess([PY_VENV, '-m', 'pyvc.replay', 'check', caller, json.dumps(raw)], 60)
            try:
                r = json.loads(out)
            except Exception:
                continue
            if r.get('admissible') and r.get('failed'):
                return {'caller_fails': {'caller': caller, 'args_json': raw, 'failed': r['failed'], 'observed': r['observed'],
                                         'how': 'helper witness lifted'}, 'tried': tried}
        native = P.NATIVE.get(caller)
        if native and 'domain' in native:
            rc, out, err, _ = run_subprocess([PY_VENV, '-m', 'pyvc.replay', 'search', caller,
                                              '20' if tier == 'quick' else '120'], 200)
            try:
                r = json.loads(out)
            except Exception:
                continue
            tried += r.get('tried', 0)
            if r.get('found'):
                return {'caller_fails': {'caller': caller, 'args_json': dict(zip(list(native['domain']), r['raw_args'])),
                                         'failed': r['failed'], 'observed': r['observed'],
                                         'how': 'bounded native search (%d tried)' % r['tried']}, 'tried': tried}
    return {'caller_fails': None, 'tried': tried}


if __name__ == '__main__':
    sys.exit(main())
