"""Native replay of contracts on the real code (runs under /venv/bin/python).

The same clause strings the verifier evaluates symbolically are evaluated here
with eval() against the real function of the tree under test.

  python -m pyvc.replay check <qualname> <json args>     one input
  python -m pyvc.replay search <qualname> <budget_s>     bounded search for a failing input
  python -m pyvc.replay file <replay.json>               re-run a replay file
"""
import importlib
import itertools
import json
import os
import sys
import time

HERE = os.path.dirname(os.path.dirname(os.path.abspath(__file__)))


def use_repo():
    root = os.environ.get('VERIF_REPO', '/repo')
    src = os.path.join(root, 'src')
    if sys.path[0] != src:
        sys.path.insert(0, src)
    if HERE not in sys.path:
        sys.path.insert(1, HERE)
    import ZConfig
    assert ZConfig.__file__.startswith(src), ZConfig.__file__
    return ZConfig


def _stub_z3():
    """The replay runs under the repository's own interpreter (/venv), which has no z3: the
    contract files only DECLARE types at import time, so a permissive stand-in module is enough
    (nothing symbolic is evaluated in a replay)."""
    try:
        import z3  # noqa: F401
        return
    except ImportError:
        pass
    import types

    class _Any:
        def __call__(self, *a, **k):
            return _Any()

        def __getattr__(self, n):
            return _Any()

    class _Stub(types.ModuleType):
        def __getattr__(self, n):
            if n.startswith('__'):
                raise AttributeError(n)
            return _Any()
    sys.modules['z3'] = _Stub('z3')


def load_contracts():
    _stub_z3()
    from pyvc import api
    import contracts.props as P
    for m in P.CONTRACT_MODULES:
        importlib.import_module(m)
    return api


def implies(a, b):
    return (not a) or b


def val(x):
    assert x is not None
    return x


def orelse(x, d):
    return d if x is None else x


def native_env(api):
    env = {'implies': implies, 'val': val, 'orelse': orelse, 'len': len}
    for mod in api.SPEC_MODULES:
        for k, v in vars(mod).items():
            if not k.startswith('__'):
                env[k] = v
    for name, p in api.PRIMS.items():
        if p.native is not None:
            env[name] = p.native
    env['removed'] = lambda m, k: {a: b for a, b in m.items() if a != k}
    env['updated'] = lambda m, k, v: {**m, k: v}
    env['keys'] = lambda m: list(m)
    env['is_prefix'] = lambda a, b: list(b[:len(a)]) == list(a)
    env['implies'] = implies
    env['val'] = val
    env['orelse'] = orelse
    return env


def get_callable(qual):
    """'substitution._split' / 'datatypes.InetAddress.__call__' -> (callable or class, kind)"""
    parts = qual.split('.')
    for i in range(len(parts), 0, -1):
        modname = 'ZConfig' + ('' if parts[:i] == ['__init__'] else '.' + '.'.join(parts[:i]))
        try:
            mod = importlib.import_module(modname)
        except ImportError:
            continue
        obj = mod
        for a in parts[i:]:
            obj = getattr(obj, a)
        return obj
    raise KeyError(qual)


def exc_matches(api, exc, clsname):
    import ZConfig
    import builtins
    name = clsname.rstrip('+')
    if name.startswith('ZConfig.'):
        cls = getattr(ZConfig, name[8:])
    elif name.startswith('__init__.'):
        cls = getattr(ZConfig, name[9:])
    elif name.startswith('builtin:'):
        cls = getattr(builtins, name[8:])
    else:
        cls = getattr(builtins, name, None) or getattr(ZConfig, name)
    return isinstance(exc, cls)


class Adapter:
    """How to call a function natively and how to enumerate inputs: provided per
    contract by contracts.props.NATIVE[qual] = dict(call=..., domain=...)."""


def check_native(api, qual, args, native):
    """Run the real function on args under its executable contract.
    Returns dict(admissible, failed=[labels], observed=...)."""
    c = api.REGISTRY[qual]
    env = native_env(api)
    env.update(args)
    for cl in c.requires:
        try:
            if not eval(cl.expr, env):
                return {'admissible': False}
        except Exception:
            return {'admissible': False}
    call = native['call']
    failed = []
    observed = None
    try:
        result = call(**args)
        observed = {'returns': repr(result)}
        env['result'] = result
        for r in c.raises:
            if r.when is not None and eval(r.when, env):
                failed.append('no-raise:' + r.label)
        for cl in c.ensures:
            try:
                ok = eval(cl.expr, env)
            except Exception as ex:
                ok = False
            if not ok:
                failed.append(cl.label)
    except Exception as exc:
        observed = {'raises': type(exc).__name__, 'message': str(exc)[:200]}
        cands = [r for r in c.raises if exc_matches(api, exc, r.cls)]
        if not cands:
            failed.append('exc-escape:' + type(exc).__name__)
        else:
            env['exc'] = exc
            fired = [r for r in cands if r.when is None or eval(r.when, env)]
            if not fired:
                failed.append('raises-only-when:' + cands[0].label)
            for r in fired:
                for cl in r.then:
                    try:
                        ok = eval(cl.expr, env)
                    except Exception:
                        ok = False
                    if not ok:
                        failed.append(r.label + ':' + cl.label)
    return {'admissible': True, 'failed': failed, 'observed': observed}


def enumerate_domain(domain, budget_s):
    """domain: dict param -> ('str', alphabet, maxlen) | ('int', lo, hi) | ('choice', [...])"""
    names = list(domain)

    def values(spec):
        kind = spec[0]
        if kind == 'str':
            _, alpha, maxlen = spec
            for n in range(maxlen + 1):
                for tup in itertools.product(alpha, repeat=n):
                    yield ''.join(tup)
        elif kind == 'int':
            yield from range(spec[1], spec[2] + 1)
        elif kind == 'choice':
            yield from spec[1]
    # iterate by increasing total size: simple product is fine for the small domains used
    return names, itertools.product(*[list(values(domain[n])) for n in names])


def search(api, qual, native, budget_s, want_label=None):
    t0 = time.time()
    names, it = enumerate_domain(native['domain'], budget_s)
    n = 0
    for combo in it:
        if time.time() - t0 > budget_s:
            break
        args = dict(zip(names, combo))
        if 'build' in native:
            args = native['build'](**args)
        n += 1
        r = check_native(api, qual, args, native)
        if r.get('admissible') and r['failed']:
            return {'found': True, 'args': {k: repr(v) for k, v in args.items()}, 'raw_args': combo,
                    'failed': r['failed'], 'observed': r['observed'], 'tried': n}
    return {'found': False, 'tried': n}


def main(argv):
    use_repo()
    api = load_contracts()
    import contracts.props as P
    cmd = argv[1]
    if cmd == 'check':
        qual = argv[2]
        native = P.NATIVE[qual]
        raw = json.loads(argv[3])
        args = native['build'](**raw) if 'build' in native else raw
        print(json.dumps(check_native(api, qual, args, native), default=repr))
    elif cmd == 'search':
        qual = argv[2]
        native = P.NATIVE.get(qual)
        if native is None or 'domain' not in native:
            print(json.dumps({'found': False, 'tried': 0, 'reason': 'no native adapter'}))
            return
        print(json.dumps(search(api, qual, native, float(argv[3])), default=repr))
    elif cmd == 'file':
        with open(argv[2]) as f:
            rp = json.load(f)
        if rp.get('native_replay') and rp['native_replay'].get('args_json') is not None:
            qual = rp['function']
            native = P.NATIVE[qual]
            raw = rp['native_replay']['args_json']
            args = native['build'](**raw) if 'build' in native else raw
            r = check_native(api, qual, args, native)
            print(json.dumps(r, default=repr))
            sys.exit(1 if r.get('failed') else 0)
        if rp.get('standin_replay'):
            print(json.dumps(rp['standin_replay'], default=repr))
            sys.exit(1)
        print(json.dumps({'note': 'no executable form', 'obligation': rp.get('obligation')}))
        sys.exit(1)


if __name__ == '__main__':
    main(sys.argv)
