"""Symbolic executor, part 2: statements, loops, exceptions."""
import ast

import z3

from . import api, strops
from .state import ExcInfo, Place
from .symex import Entity, cond_fingerprint, normal
from .types import snth, sunit
from .types import (TBool, TFun, TInt, TMap, TNone, TOpaque, TOpt, TRef, TSeq, TStr,
                    TTuple, TUnion, parse_type)
from .values import PathEnds
from .values import (NONE, SV, OutsideSubset, TBottom, TypeMismatch, box, coerce, fresh,
                     merge, mk_bool, mk_int, unbox, seq_literal)


class IterSrc:
    def __init__(self, length, elem, unchanged=None, desc=''):
        self.length = length        # z3 Int term
        self.elem = elem            # fn(state, i_term) -> SV
        self.unchanged = unchanged  # fn(state) -> z3 Bool or None
        self.desc = desc


class StmtMixin:
    # ------------------------------------------------------------------
    def exec_block(self, st, stmts):
        states = [st]
        for s in stmts:
            nxt = []
            for cur in states:
                if not normal(cur):
                    nxt.append(cur)
                    continue
                try:
                    nxt.extend(self.exec_stmt(cur, s))
                except PathEnds:
                    # (forks made inside this statement are lost with it; the failed safety
                    # obligation that ended the path is already recorded)
                    pass
            states = nxt
            if len(states) > self.max_paths:
                raise OutsideSubset('path explosion (> %d paths)' % self.max_paths)
        return states

    def exec_stmt(self, st, s):
        m = getattr(self, 'exec_' + type(s).__name__, None)
        if m is None:
            raise OutsideSubset('statement ' + type(s).__name__)
        self.cur_line = getattr(s, 'lineno', None)
        c = self.contract
        if c is not None and c.asserts and self.spec_depth == 0 and self.inline_depth == 0:
            kind = type(s).__name__
            for a in c.asserts:
                if a.stmt != kind:
                    continue
                if getattr(a, 'test', None) is not None:
                    hit = self.test_ordinal(s, a.test) == a.nth
                else:
                    hit = self.stmt_ordinals.get(id(s)) == a.nth
                if hit:
                    self.asserts_seen.add(id(a))
                    t = self.eval_contract_expr(st, a.expr, None, self.pre_state)
                    self.oblige(st, t, 'assert', a.label, carries=a.carries, node=s,
                                info={'claim': 'at %s #%d: %s' % (kind, a.nth, a.expr)})
        return m(st, s)

    def test_ordinal(self, s, text):
        """Ordinal of statement s among the statements of its kind in the function whose test has the
        given source text (None when the test of s is another one)."""
        t = getattr(s, 'test', None)
        if t is None:
            return None
        try:
            if ast.unparse(t) != text:
                return None
        except Exception:
            return None
        if not hasattr(self, '_test_ord_cache'):
            self._test_ord_cache = {}
        key = (id(self.fn.node), type(s).__name__, text)
        if key not in self._test_ord_cache:
            found = [n for n in ast.walk(self.fn.node) if type(n) is type(s) and getattr(n, 'test', None) is not None
                     and ast.unparse(n.test) == text]
            found.sort(key=lambda n: (n.lineno, n.col_offset))
            self._test_ord_cache[key] = {id(n): k for k, n in enumerate(found)}
        return self._test_ord_cache[key].get(id(s))

    def exec_Pass(self, st, s):
        return [st]

    def exec_FunctionDef(self, st, s):
        # a nested function: a closure over the enclosing locals (read at call time)
        if s.decorator_list or s.args.vararg or s.args.kwarg or s.args.kwonlyargs:
            raise OutsideSubset('nested function with decorators / star arguments')
        st.env[s.name] = Entity('localfunc', s)
        return [st]

    def exec_Expr(self, st, s):
        if isinstance(s.value, ast.Constant):
            return [st]      # docstring
        return [s2 for s2, _ in self.eval(st, s.value)]

    def exec_Import(self, st, s):
        for a in s.names:
            st.env[a.asname or a.name.split('.')[0]] = Entity('ext', a.name if a.asname else a.name.split('.')[0])
        return [st]

    def exec_ImportFrom(self, st, s):
        for a in s.names:
            full = (s.module or '') + '.' + a.name
            if full.startswith('ZConfig'):
                st.env[a.asname or a.name] = self.entity_for_resolved(
                    self.src.resolve_name(self.cur_module, full) if False else
                    ('.'.join(full.split('.')[1:]) or '__init__'))
            else:
                st.env[a.asname or a.name] = Entity('ext', full)
        return [st]

    def exec_Return(self, st, s):
        if s.value is None:
            st.flow = 'return'
            st.ret = NONE
            return [st]
        if self.contract is not None and self.contract.fresh_result and self.inline_depth == 0 \
                and self.spec_depth == 0:
            # ownership: a function whose result must be a NEW container may not hand out a
            # container that an object keeps in a field (aliasing the schema's own data)
            try:
                pl = self.try_place(st.copy(), s.value)
            except OutsideSubset:
                pl = None
            if isinstance(s.value, ast.Name) and isinstance(st.env.get(s.value.id), SV) \
                    and isinstance(st.env[s.value.id].ty, TRef):
                pl = None         # an object (possibly dict-derived) is returned, not a container value
            if pl is not None and len(pl) == 1 and isinstance(pl[0][1], Place):
                root = pl[0][1].root
                while root[0] == 'local' and isinstance(st.env.get(root[1]), Place):
                    root = st.env[root[1]].root
                if root[0] == 'field':
                    self.oblige(st, False, 'ownership', 'result-is-a-new-container', node=s,
                                carries=getattr(self.contract, 'frame_carries', None) or 'C13',
                                info={'claim': 'the returned container is a copy, not the container stored in '
                                               '%s.%s (mutating the result would alter the object)' % root[2]})
        out = []
        for s2, v in self.eval(st, s.value):
            if normal(s2):
                s2.flow = 'return'
                s2.ret = self.own_result(s2, v, s)
            out.append(s2)
        return out

    def own_result(self, st, v, node):
        return v

    def exec_Assert(self, st, s):
        out = []
        for s2, v in self.eval(st, s.test):
            if normal(s2):
                self.oblige(s2, self.truthy(s2, v), 'safety', 'assert', node=s,
                            info={'claim': 'assert holds (AssertionError): ' + ast.unparse(s.test)})
            out.append(s2)
        return out

    def exec_Break(self, st, s):
        st.flow = 'break'
        return [st]

    def exec_Continue(self, st, s):
        st.flow = 'continue'
        return [st]

    # ------------------------------------------------------------------
    # assignment
    # ------------------------------------------------------------------
    def exec_Assign(self, st, s):
        out = []
        s._pyvc_rhs_field_root = None
        if len(s.targets) == 1 and isinstance(s.targets[0], ast.Attribute) and isinstance(s.value, ast.Attribute):
            n_obl = len(self.obls)
            try:
                pl = self.try_place(st.copy(), s.value)
            except OutsideSubset:
                pl = None
            del self.obls[n_obl:]
            if pl is not None and len(pl) == 1 and isinstance(pl[0][1], Place) and pl[0][1].root[0] == 'field' \
                    and not pl[0][1].path:
                s._pyvc_rhs_field_root = pl[0][1].root[1]
        for s2, v in self.eval_rhs(st, s.value, s.targets):
            if not normal(s2):
                out.append(s2)
                continue
            states = [s2]
            for tgt in s.targets:
                nxt = []
                for cur in states:
                    nxt.extend(self.assign(cur, tgt, v, s))
                states = nxt
            # `x[k] = L` / `o.f = L` with L a local container: in Python the slot and L are now the
            # SAME list / dict.  Containers have value semantics here, so L becomes a borrow of the
            # slot (a later `L.append(..)` must be seen through the slot).
            if isinstance(s.value, ast.Name) and len(s.targets) == 1 \
                    and isinstance(s.targets[0], (ast.Subscript, ast.Attribute)) \
                    and not (isinstance(s.targets[0], ast.Subscript) and isinstance(s.targets[0].slice, ast.Slice)):
                for cur in states:
                    lv = cur.env.get(s.value.id)
                    if normal(cur) and isinstance(lv, SV) and self.is_container_type(lv.ty):
                        n_obl = len(self.obls)
                        try:
                            pl = self.try_place(cur.copy(), self.as_load(s.targets[0]))
                        except OutsideSubset:
                            pl = None
                        del self.obls[n_obl:]      # (the store itself already carried the safety obligations)
                        if pl is not None and len(pl) == 1 and isinstance(pl[0][1], Place):
                            cur.env[s.value.id] = pl[0][1]
                        else:
                            # no borrow possible (e.g. the slot holds a shared heap container): the
                            # local must not be used again - any later use is outside the subset
                            cur.env[s.value.id] = Entity('moved', 'local container %s after it was stored into %s'
                                                         % (s.value.id, ast.unparse(s.targets[0])))
            out.extend(states)
        return out

    def eval_rhs(self, st, value, targets):
        """Evaluate a right-hand side; a plain local target of a place-able
        expression yields a Place (alias), not a copy."""
        if len(targets) == 1 and isinstance(targets[0], ast.Name):
            pl = self.try_place(st, value)
            if pl is not None:
                return pl
        return self.eval(st, value)

    def dict_setdefault_place(self, st, e):
        """obj.__dict__.setdefault('attr', default): the attribute `attr` of obj, created with the
        default when absent (modelled as an optional field).  -> [(state, Place)] or None"""
        if not (isinstance(e, ast.Call) and isinstance(e.func, ast.Attribute) and e.func.attr == 'setdefault'
                and isinstance(e.func.value, ast.Attribute) and e.func.value.attr == '__dict__'
                and len(e.args) == 2 and isinstance(e.args[0], ast.Constant) and isinstance(e.args[0].value, str)):
            return None
        attr = e.args[0].value
        res = self.eval(st, e.func.value.value)
        if len(res) != 1 or not normal(res[0][0]):
            return None
        s2, obj = res[0]
        if not (isinstance(obj, SV) and isinstance(obj.ty, TRef)):
            return None
        dcls, fty = self.classes.field(obj.ty.cls, attr)
        m = api.MODELS.get(dcls) if dcls else None
        if m is None or attr not in m.optional:
            return None
        flag = self.read_field(s2, obj, obj.ty.cls, m.optional[attr])
        outs = []
        a, b = self.fork(s2, flag.t, None, 'has-' + attr)
        if a is not None:
            outs.append((a, Place(('field', obj.t, (dcls, attr)))))
        if b is not None:
            for s3, dv in self.eval(b, e.args[1]):
                self.write_field(s3, obj, obj.ty.cls, attr, self.need_value(dv), e)
                outs.append((s3, Place(('field', obj.t, (dcls, attr)))))
        return outs

    def try_place(self, st, e):
        """If e denotes an owned-container location, return [(st, Place)]."""
        sd = self.dict_setdefault_place(st, e)
        if sd is not None:
            return sd
        try:
            if isinstance(e, ast.Name) and e.id in st.env:
                cur = st.env[e.id]
                if isinstance(cur, Place):
                    return [(st, cur)]
                dp = self.dict_place(cur) if isinstance(cur, SV) else None
                if dp is not None:
                    return [(st, dp)]
                if isinstance(cur, SV) and self.is_container_type(cur.ty):
                    return [(st, Place(('local', e.id)))]
                return None
            if isinstance(e, ast.Attribute):
                res = self.eval(st, e.value)
                if len(res) != 1 or not normal(res[0][0]):
                    return None
                s2, base = res[0]
                if isinstance(base, SV) and isinstance(base.ty, TOpt) and isinstance(base.ty.inner, TRef):
                    base = self.unwrap_opt(s2, base, e, '.' + e.attr)
                if isinstance(base, SV) and isinstance(base.ty, TRef) and self.classes.field(base.ty.cls, e.attr)[0] is None:
                    # a field of a subclass: implicit downcast (AttributeError obligation)
                    owners = []
                    for q in self.classes.subclasses(base.ty.cls):
                        dc, _ = self.classes.field(q, e.attr)
                        if dc is not None and dc not in owners:
                            owners.append(dc)
                    if len(owners) == 1:
                        self.oblige(s2, self.isinstance_term(s2, base, owners[0]), 'safety', 'has-attr-' + e.attr, node=e,
                                    info={'claim': 'object is a %s, which has attribute %s (AttributeError)' % (owners[0], e.attr)})
                        base = SV(TRef(owners[0]), base.t)
                if isinstance(base, SV) and isinstance(base.ty, TRef):
                    attr_ = '_dict' if e.attr == '__dict__' else e.attr
                    e = ast.copy_location(ast.Attribute(value=e.value, attr=attr_, ctx=e.ctx), e)
                    dcls, fty = self.classes.field(base.ty.cls, e.attr)
                    if dcls is not None and self.is_container_type(fty):
                        return [(s2, Place(('field', base.t, (dcls, e.attr))))]
                return None
            if isinstance(e, ast.Subscript) and not isinstance(e.slice, ast.Slice):
                inner = self.try_place(st, e.value)
                if inner is None or len(inner) != 1:
                    return None
                s2, pl = inner[0]
                cont = self.read_place(s2, pl)
                res = self.eval(s2, e.slice)
                if len(res) != 1 or not normal(res[0][0]):
                    return None
                s3, idx = res[0]
                pl2, cont2 = self.narrow_place(s3, pl, cont, e, want='subscript')
                if isinstance(cont2.ty, TUnion):
                    want_map = isinstance(idx, SV) and (idx.ty == TStr or (isinstance(idx.ty, TOpt) and idx.ty.inner == TStr))
                    pl2, cont2 = self.pick_alt(s3, pl2, cont2, e, (lambda t: isinstance(t, TMap)) if want_map
                                               else (lambda t: isinstance(t, TSeq)))
                if isinstance(cont2.ty, TMap):
                    idx = self.map_key(s3, cont2, idx, e)
                    has = self.map_has(cont2, idx)
                    self.oblige(s3, has, 'safety', 'dict-key', node=e,
                                info={'claim': 'key present in dict (KeyError)'})
                    elem_ty = cont2.ty.v
                    step = ('key', idx)
                elif isinstance(cont2.ty, TSeq):
                    i = self.int_term(s3, idx, e, 'index')
                    self.oblige(s3, strops.index_ok(i, z3.Length(cont2.t)), 'safety', 'seq-index',
                                node=e, info={'claim': 'list index in range (IndexError)'})
                    elem_ty = cont2.ty.elem
                    step = ('idx', SV(TInt, i))
                else:
                    return None
                if not self.is_container_type(elem_ty):
                    return None
                return [(s3, pl2.extend(step))]
        except TypeMismatch:
            return None
        return None

    def narrow_place(self, st, pl, cont, node, want):
        """Strip Opt / Union wrappers of a container place for an operation."""
        if isinstance(cont.ty, TOpt):
            self.oblige(st, z3.Not(cont.ty.is_none(cont.t)), 'safety', 'None-' + want, node=node,
                        info={'claim': 'container is not None for ' + want})
            return self.narrow_place(st, pl.extend(('opt',)),
                                     unbox(cont.ty.inner, cont.ty.val(cont.t)), node, want)
        return pl, cont

    def assign(self, st, tgt, v, node):
        """Returns list of states."""
        if isinstance(tgt, ast.Name):
            if isinstance(v, Place) or isinstance(v, Entity):
                st.env[tgt.id] = v
            else:
                st.env[tgt.id] = v
            # a local that aliased this name as a place root keeps working (root by name)
            return [st]
        if isinstance(tgt, (ast.Tuple, ast.List)):
            v = self.value(st, v)
            return self.unpack(st, tgt.elts, v, node)
        v = self.value(st, v) if isinstance(v, Place) else v
        if isinstance(tgt, ast.Attribute):
            out = []
            for s2, base in self.eval(st, tgt.value):
                if not normal(s2):
                    out.append(s2)
                    continue
                base = self.unwrap_opt(s2, self.need_value(base), tgt, '.' + tgt.attr)
                if not isinstance(base.ty, TRef):
                    raise OutsideSubset('attribute store on ' + str(base.ty))
                src_root = getattr(node, '_pyvc_rhs_field_root', None)
                if src_root is not None and self.spec_depth == 0 and not self.in_contract \
                        and getattr(self.contract, 'no_alias_stores', False) \
                        and isinstance(v, SV) and self.is_container_type(v.ty):
                    # `o.f = p.g` with g a list / dict field: in Python both objects now hold the SAME
                    # container (containers have value semantics here, so this must not happen
                    # between different objects)
                    self.oblige(s2, src_root == base.t, 'ownership', 'container-not-shared-between-objects', node=node,
                                carries='C13',
                                info={'claim': 'the list / dict stored in .%s is not the container another object '
                                               'keeps in a field (a copy is stored, not an alias)' % tgt.attr})
                self.write_field(s2, base, base.ty.cls, tgt.attr, self.need_value(v), tgt)
                out.append(s2)
            return out
        if isinstance(tgt, ast.Subscript):
            return self.assign_subscript(st, tgt, self.need_value(v), node)
        raise OutsideSubset('assignment target ' + type(tgt).__name__)

    def unpack(self, st, elts, v, node):
        v = self.need_value(v)
        if isinstance(v.ty, TOpt):
            v = self.unwrap_opt(st, v, node, 'unpack')
        if isinstance(v.ty, TTuple):
            if len(v.t) != len(elts):
                self.oblige(st, False, 'safety', 'unpack-arity', node=node,
                            info={'claim': 'unpacking %d values into %d targets (ValueError)' % (len(v.t), len(elts))})
                raise OutsideSubset('unpack arity mismatch')
            states = [st]
            for t, x in zip(elts, v.t):
                nxt = []
                for cur in states:
                    nxt.extend(self.assign(cur, t, x, node))
                states = nxt
            return states
        if isinstance(v.ty, TSeq) and v.ty.elem is not TBottom:
            self.oblige(st, z3.Length(v.t) == len(elts), 'safety', 'unpack-arity', node=node,
                        info={'claim': 'sequence has exactly %d items to unpack (ValueError)' % len(elts)})
            states = [st]
            for i, t in enumerate(elts):
                nxt = []
                for cur in states:
                    nxt.extend(self.assign(cur, t, unbox(v.ty.elem, snth(v.ty.elem, v.t, i)), node))
                states = nxt
            return states
        if v.ty == TStr or v.ty == TInt:
            self.oblige(st, False, 'type', 'unpack', node=node,
                        info={'claim': 'unpacking a %s into %d targets' % (v.ty, len(elts))})
            raise OutsideSubset('unpack of ' + str(v.ty))
        raise OutsideSubset('unpack of ' + str(v.ty))

    def assign_subscript(self, st, tgt, v, node):
        if isinstance(tgt.slice, ast.Slice):
            # x[:] = seq    (whole-slice assignment only)
            sl = tgt.slice
            if sl.lower is not None or sl.upper is not None:
                raise OutsideSubset('partial slice assignment')
            pls = self.lvalue(st, tgt.value)
            out = []
            for s2, pl in pls:
                if not normal(s2):
                    out.append(s2)
                    continue
                self.store_container(s2, pl, v, tgt, 'slice-assign')
                out.append(s2)
            return out
        out = []
        for s2, pl in self.lvalue(st, tgt.value):
            if not normal(s2):
                out.append(s2)
                continue
            for s3, idx in self.eval(s2, tgt.slice):
                if not normal(s3):
                    out.append(s3)
                    continue
                self.store_item(s3, pl, self.need_value(idx), v, tgt)
                out.append(s3)
        return out

    def lvalue(self, st, e):
        """Evaluate e to a mutable location: list of (state, Place | SV(ref))."""
        pl = self.try_place(st, e)
        if pl is not None:
            return pl
        out = []
        for s2, v in self.eval(st, e):
            out.append((s2, v))
        return out

    def container_of(self, st, loc, node, want):
        """(place-or-None, container SV) with Opt/Union stripped as needed."""
        if isinstance(loc, Place):
            cont = self.read_place(st, loc)
            return self.narrow_place(st, loc, cont, node, want)
        loc = self.need_value(loc)
        dp = self.dict_place(loc)
        if dp is not None:
            return dp, self.read_place(st, dp)
        if isinstance(loc.ty, TRef) and (loc.ty.cls.startswith('list:') or loc.ty.cls.startswith('dict:')):
            dcls, _ = self.classes.field(loc.ty.cls, 'items')
            pl = Place(('field', loc.t, (dcls, 'items')))
            return pl, self.read_place(st, pl)
        return None, loc

    def store_item(self, st, loc, idx, v, node):
        pl, cont = self.container_of(st, loc, node, 'item-store')
        if pl is None:
            if isinstance(cont.ty, TRef):
                res = self.call_method(st, cont, '__setitem__', [idx, v], {}, node)
                return
            raise OutsideSubset('item store into a temporary')
        if isinstance(cont.ty, TUnion):
            pl, cont = self.pick_alt(st, pl, cont, node, lambda t: isinstance(t, TMap))
        if isinstance(cont.ty, TMap):
            idx = self.map_key(st, cont, idx, node)
            new = self.map_set(cont, idx, v, st)
            self.write_place(st, pl, new, node)
            return
        if isinstance(cont.ty, TSeq):
            i = self.int_term(st, idx, node, 'index')
            self.oblige(st, strops.index_ok(i, z3.Length(cont.t)), 'safety', 'seq-index', node=node,
                        info={'claim': 'list index in range (IndexError)'})
            self.write_place(st, pl.extend(('idx', SV(TInt, i))), v, node)
            return
        raise OutsideSubset('item store into ' + str(cont.ty))

    def pick_alt(self, st, pl, cont, node, pred):
        """Narrow a union-typed container to its unique alternative satisfying
        pred, with a safety obligation on the tag."""
        cands = [(tag, t) for tag, t in cont.ty.alts if pred(t)]
        if len(cands) > 1:
            feas = [(tag, t) for tag, t in cands if self.feasible(st, cont.ty.is_tag(tag, cont.t), timeout_ms=4000)]
            if feas:
                cands = feas
        if len(cands) != 1:
            raise OutsideSubset('ambiguous union alternative')
        tag, t = cands[0]
        self.oblige(st, cont.ty.is_tag(tag, cont.t), 'safety', 'slot-kind', node=node,
                    info={'claim': 'value has the container kind the operation needs (AttributeError/TypeError)'})
        return pl.extend(('alt', tag)), unbox(t, cont.ty.get(tag, cont.t))

    def store_container(self, st, loc, v, node, what):
        pl, cont = self.container_of(st, loc, node, what)
        if pl is None:
            raise OutsideSubset(what + ' into a temporary')
        if isinstance(cont.ty, TUnion):
            pl, cont = self.pick_alt(st, pl, cont, node, lambda t: isinstance(t, TSeq))
        if isinstance(v.ty, TRef) and v.ty.cls.startswith('list:'):
            v = self.read_field(st, v, v.ty.cls, 'items')
        if isinstance(v.ty, TTuple):
            v = seq_literal(list(v.t), self.classes)
        if isinstance(v.ty, TOpt):
            v = self.unwrap_opt(st, v, node, what)
        if isinstance(v.ty, TUnion):
            v = self.narrow_union(st, v, node, what, lambda t: isinstance(t, TSeq))
        self.write_place(st, pl, coerce(v, cont.ty, self.classes), node)

    def exec_AugAssign(self, st, s):
        load = ast.copy_location(ast.BinOp(left=self.as_load(s.target), op=s.op, right=s.value), s)
        ast.fix_missing_locations(load)
        out = []
        for s2, v in self.eval(st, load):
            if not normal(s2):
                out.append(s2)
                continue
            out.extend(self.assign(s2, s.target, v, s))
        return out

    def as_load(self, t):
        import copy
        t2 = copy.deepcopy(t)
        for n in ast.walk(t2):
            if hasattr(n, 'ctx'):
                n.ctx = ast.Load()
        return t2

    def exec_Delete(self, st, s):
        out = [st]
        for tgt in s.targets:
            nxt = []
            for cur in out:
                if not normal(cur):
                    nxt.append(cur)
                    continue
                if isinstance(tgt, ast.Name):
                    cur.env.pop(tgt.id, None)
                    nxt.append(cur)
                elif isinstance(tgt, ast.Subscript):
                    for s2, pl in self.lvalue(cur, tgt.value):
                        for s3, idx in self.eval(s2, tgt.slice):
                            self.delete_item(s3, pl, self.need_value(idx), tgt)
                            nxt.append(s3)
                else:
                    raise OutsideSubset('del target')
            out = nxt
        return out

    def delete_item(self, st, loc, key, node):
        pl, cont = self.container_of(st, loc, node, 'del')
        if pl is not None and isinstance(cont.ty, TSeq) and cont.ty.elem is not TBottom:
            i = self.int_term(st, key, node, 'index')
            n = z3.Length(cont.t)
            self.oblige(st, strops.index_ok(i, n), 'safety', 'seq-index', node=node,
                        info={'claim': 'list index in range for del (IndexError)'})
            ii = strops.index_norm(i, n)
            self.write_place(st, pl, SV(cont.ty, z3.Concat(z3.SubSeq(cont.t, 0, ii), z3.SubSeq(cont.t, ii + 1, n - ii - 1))), node)
            return
        if pl is None or not isinstance(cont.ty, TMap):
            raise OutsideSubset('del on ' + str(cont.ty))
        has = self.map_has(cont, key)
        self.oblige(st, has, 'safety', 'dict-key', node=node, info={'claim': 'key present for del (KeyError)'})
        kk = box(coerce(key, cont.ty.k, self.classes))
        keys = cont.ty.keys(cont.t)
        i = z3.IndexOf(keys, sunit(cont.ty.k, kk), 0)
        n = z3.Length(keys)
        nkeys = z3.Concat(z3.SubSeq(keys, 0, i), z3.SubSeq(keys, i + 1, n - i - 1))
        self.write_place(st, pl, SV(cont.ty, cont.ty.mk(nkeys, cont.ty.vals(cont.t))), node)

    # ------------------------------------------------------------------
    # branching
    # ------------------------------------------------------------------
    def fork(self, st, cond, node, tag):
        """Split st on a z3 Bool; returns (state_true | None, state_false | None)."""
        c = z3.simplify(cond)
        fpr = tag + ':' + (cond_fingerprint(node) if node is not None else '')
        if z3.is_true(c):
            st.mark(fpr + ':T')
            return st, None
        if z3.is_false(c):
            st.mark(fpr + ':F')
            return None, st
        a = st.copy()
        a.assume(cond)
        a.mark(fpr + ':T')
        b = st
        b.assume(z3.Not(cond))
        b.mark(fpr + ':F')
        if not self.feasible(a):
            a = None
        if not self.feasible(b):
            b = None
        return a, b

    def exec_If(self, st, s):
        out = []
        for s2, c in self.eval(st, s.test):
            if not normal(s2):
                out.append(s2)
                continue
            a, b = self.fork(s2, self.truthy(s2, c), s.test, 'if')
            if a is not None:
                self.narrow(a, s.test, True)
                out.extend(self.exec_block(a, s.body))
            if b is not None:
                self.narrow(b, s.test, False)
                out.extend(self.exec_block(b, s.orelse))
        return out

    def narrow(self, st, test, truth):
        """Flow-sensitive narrowing of Opt locals after `x is None`, `x`, `not x`."""
        def set_none(name):
            v = st.env.get(name)
            if isinstance(v, SV) and isinstance(v.ty, TOpt):
                st.env[name] = NONE

        def set_some(name):
            v = st.env.get(name)
            if isinstance(v, SV) and isinstance(v.ty, TOpt):
                st.env[name] = unbox(v.ty.inner, v.ty.val(v.t))

        if isinstance(test, ast.Compare) and len(test.ops) == 1 and isinstance(test.left, ast.Name) \
                and isinstance(test.comparators[0], ast.Constant) and test.comparators[0].value is None:
            if isinstance(test.ops[0], ast.Is):
                (set_none if truth else set_some)(test.left.id)
            elif isinstance(test.ops[0], ast.IsNot):
                (set_some if truth else set_none)(test.left.id)
        elif isinstance(test, ast.Name) and truth:
            set_some(test.id)
        elif isinstance(test, ast.UnaryOp) and isinstance(test.op, ast.Not):
            self.narrow(st, test.operand, not truth)
        elif isinstance(test, ast.BoolOp) and isinstance(test.op, ast.And) and truth:
            for v in test.values:
                self.narrow(st, v, True)
        elif isinstance(test, ast.BoolOp) and isinstance(test.op, ast.Or) and not truth:
            for v in test.values:
                self.narrow(st, v, False)

    # ------------------------------------------------------------------
    # exceptions
    # ------------------------------------------------------------------
    def raise_builtin(self, st, cls, node, args=()):
        ref = self.new_object(st, cls)
        st.flow = 'raise'
        st.exc = ExcInfo(cls, ref)
        st.mark('raise:' + cls)

    def catches(self, st, cls):
        for handlers in self.try_stack:
            for h in handlers:
                if h is None or self.classes.is_subclass(cls, h):
                    return True
        return False

    def exec_Raise(self, st, s):
        if s.exc is None:
            if not st.handling:
                raise OutsideSubset('bare raise outside handler')
            st.flow = 'raise'
            st.exc = st.handling[-1]
            st.mark('reraise')
            return [st]
        out = []
        for s2, v in self.eval(st, s.exc):
            if not normal(s2):
                out.append(s2)
                continue
            if isinstance(v, Entity) and v.kind == 'class':
                res = self.construct(s2, v.data, [], {}, s)
            else:
                res = [(s2, v)]
            for s3, ev in res:
                if not normal(s3):
                    out.append(s3)
                    continue
                ev = self.need_value(ev)
                if not isinstance(ev.ty, TRef):
                    raise OutsideSubset('raise of non-object')
                s3.flow = 'raise'
                s3.exc = ExcInfo(self.classes.canon(ev.ty.cls), ev)
                s3.mark('raise:' + ev.ty.cls)
                out.append(s3)
        return out

    def handler_classes(self, h):
        if h.type is None:
            return [None]
        types = h.type.elts if isinstance(h.type, ast.Tuple) else [h.type]
        out = []
        for t in types:
            ent = self.eval(self.scratch_state(), t)[0][1]
            if isinstance(ent, Entity) and ent.kind == 'ext' and ('ext:' + ent.data) in api.MODELS:
                out.append('ext:' + ent.data)
                continue
            if not (isinstance(ent, Entity) and ent.kind == 'class'):
                raise OutsideSubset('except clause type')
            out.append(self.classes.canon(ent.data))
        return out

    def scratch_state(self):
        st = self.base_state.copy()
        return st

    def exec_Try(self, st, s):
        hclasses = [self.handler_classes(h) for h in s.handlers]
        flat = [c for hc in hclasses for c in hc]
        self.try_stack.append(flat)
        try:
            body_states = self.exec_block(st, s.body)
        finally:
            self.try_stack.pop()
        after = []
        for cur in body_states:
            if cur.flow == 'raise':
                after.extend(self.dispatch_handlers(cur, s, hclasses))
            elif normal(cur) and s.orelse:
                after.extend(self.exec_block(cur, s.orelse))
            else:
                after.append(cur)
        if not s.finalbody:
            return after
        out = []
        for cur in after:
            saved = (cur.flow, cur.ret, cur.exc)
            cur.flow = 'normal'
            for f in self.exec_block(cur, s.finalbody):
                if normal(f):
                    f.flow, f.ret, f.exc = saved
                out.append(f)
        return out

    def dispatch_handlers(self, st, s, hclasses):
        """st.flow == 'raise'.  Returns states after handling (or still raising)."""
        out = []
        remaining = st
        for h, classes in zip(s.handlers, hclasses):
            if remaining is None:
                break
            exc = remaining.exc
            # static decision where possible
            match_terms = []
            static = None
            for c in classes:
                if c is None or self.classes.is_subclass(exc.cls, c):
                    static = True
                    break
                if exc.opaque_cls and self.classes.is_subclass(c, exc.cls):
                    match_terms.append(self.isinstance_term(remaining, exc.ref, c))
            if static is None and not match_terms:
                continue
            if static:
                taken, remaining = remaining, None
            else:
                taken, remaining = self.fork(remaining, z3.Or(match_terms), None, 'except:' + ','.join(map(str, classes)))
            if taken is not None:
                exc = taken.exc
                taken.flow = 'normal'
                taken.exc = None
                taken.mark('except:' + str(classes[0]))
                if h.name:
                    cls_for_name = exc.cls
                    if not static:
                        # narrowed to the handler class
                        cls_for_name = [c for c in classes if c is not None and self.classes.is_subclass(c, exc.cls)][0]
                    taken.env[h.name] = SV(TRef(cls_for_name), exc.ref.t)
                taken.handling = taken.handling + (exc,)
                for f in self.exec_block(taken, h.body):
                    f.handling = f.handling[:-1] if f.handling else f.handling
                    if h.name:
                        f.env.pop(h.name, None)
                    out.append(f)
        if remaining is not None:
            out.append(remaining)
        return out

    def exec_With(self, st, s):
        if len(s.items) != 1:
            raise OutsideSubset('multi-item with')
        item = s.items[0]
        out = []
        for s2, mgr in self.eval(st, item.context_expr):
            if not normal(s2):
                out.append(s2)
                continue
            mgr = self.need_value(mgr)
            for s3, entered in self.call_method(s2, mgr, '__enter__', [], {}, s):
                if not normal(s3):
                    out.append(s3)
                    continue
                if item.optional_vars is not None:
                    states = self.assign(s3, item.optional_vars, entered, s)
                else:
                    states = [s3]
                for s4 in states:
                    for b in self.exec_block(s4, s.body):
                        saved = (b.flow, b.ret, b.exc)
                        b.flow = 'normal'
                        for s5, r in self.call_method(b, mgr, '__exit__', [NONE, NONE, NONE], {}, s):
                            if normal(s5):
                                # __exit__ of the classes here returns None: exceptions propagate
                                if r is not None and r.ty != TNone:
                                    raise OutsideSubset('__exit__ returning a value')
                                s5.flow, s5.ret, s5.exc = saved
                            out.append(s5)
        return out

    # ------------------------------------------------------------------
    # loops
    # ------------------------------------------------------------------
    def loop_spec(self, node):
        ordn = self.loop_ordinals.get(id(node))
        c = self.contract
        if c is None or ordn is None or ordn >= len(c.loops):
            return None, ordn
        return c.loops[ordn], ordn

    def assigned_names(self, stmts):
        names = set()
        for s in stmts:
            for n in ast.walk(s):
                if isinstance(n, ast.Name) and isinstance(n.ctx, (ast.Store, ast.Del)):
                    names.add(n.id)
                elif isinstance(n, ast.ExceptHandler) and n.name:
                    names.add(n.name)
        return names

    def mutated_names(self, stmts):
        """Locals that are mutated in place (x.append, x[k] = v, x.update, ...)."""
        names = set()
        for s in stmts:
            for n in ast.walk(s):
                if isinstance(n, ast.Call) and isinstance(n.func, ast.Attribute) \
                        and isinstance(n.func.value, ast.Name) \
                        and n.func.attr in ('append', 'extend', 'update', 'insert', 'remove', 'pop',
                                            'setdefault', 'clear', 'sort', 'reverse'):
                    names.add(n.func.value.id)
                if isinstance(n, ast.Subscript) and isinstance(n.ctx, (ast.Store, ast.Del)):
                    b = n.value
                    while isinstance(b, ast.Subscript):
                        b = b.value
                    if isinstance(b, ast.Name):
                        names.add(b.id)
        return names

    def havoc_for_loop(self, st, spec, body, extra_names=()):
        names = self.assigned_names(body) | self.mutated_names(body) | set(extra_names)
        for n in sorted(names):
            if n in (spec.locals if spec else {}):
                ty = parse_type(spec.locals[n])
                st.env[n] = fresh(ty, n)
                self.assume_type_facts(st, st.env[n])
            elif n in st.env:
                cur = st.env[n]
                if isinstance(cur, Place):
                    continue   # storage is havocked through the heap / its root
                if isinstance(cur, Entity):
                    continue
                if is_bottom(cur.ty):
                    raise OutsideSubset('loop-carried local %s needs a declared type' % n)
                st.env[n] = fresh(cur.ty, n)
                self.assume_type_facts(st, st.env[n])
        # heap
        mods = spec.modifies if (spec is not None and spec.modifies is not None) else None
        if mods is None:
            mods = self.contract.modifies if self.contract is not None else []
        env = dict(self.entry_env or {})
        env.update({k: v for k, v in st.env.items() if not isinstance(v, Entity)})
        self.havoc_locations(st, mods, st, env=env)
        st.alloc = self.fresh_alloc(st)
        # the heap at the loop head is closed: every reference stored in it denotes an object
        # allocated before this point
        ca = []
        for fkey, arr in st.heap.items():
            if isinstance(fkey, tuple) and len(fkey) == 2:
                _, fty = self.classes.field(fkey[0], fkey[1])
                if fty is not None and (isinstance(fty, TRef) or (isinstance(fty, TSeq) and isinstance(fty.elem, TTuple))):
                    ca.append((arr, fty, st.alloc))
        st.closed_arrays = tuple(ca)

    def fresh_alloc(self, st):
        a = fresh(TInt, 'alloc').t
        st.assume(a >= st.alloc)
        return a

    def eval_clauses(self, st, clauses, extra=None, old_state=None, loop_ord=None):
        """Evaluate contract clauses in state st -> list of (Clause, z3 Bool).  `entry(e)` inside a
        loop invariant is e evaluated in the state in which that loop was entered."""
        out = []
        saved = getattr(self, 'cur_loop_ord', None)
        self.cur_loop_ord = loop_ord
        try:
            for cl in clauses:
                out.append((cl, self.eval_contract_expr(st, cl.expr, extra, old_state)))
        finally:
            self.cur_loop_ord = saved
        return out

    def exec_While(self, st, s):
        spec, ordn = self.loop_spec(s)
        label = 'loop%s' % ordn
        if spec is None:
            self.undeclared_loops.append(ordn)
            from .api import Loop
            spec = Loop()
        # entry
        for cl, t in self.eval_clauses(st, spec.invariant, old_state=self.pre_state):
            self.oblige(st, t, 'inv-entry', '%s:%s' % (label, cl.label), carries=cl.carries, node=s,
                        info={'claim': 'loop invariant holds on entry: ' + cl.expr})
        self.havoc_for_loop(st, spec, s.body + s.orelse)
        st.mark('loop%s' % ordn)
        for cl, t in self.eval_clauses(st, spec.invariant, old_state=self.pre_state):
            st.assume(t)
        out = []
        for s2, c in self.eval(st, s.test):
            if not normal(s2):
                out.append(s2)
                continue
            a, b = self.fork(s2, self.truthy(s2, c), s.test, 'while')
            if b is not None:
                self.narrow(b, s.test, False)
                out.extend(self.exec_block(b, s.orelse) if s.orelse else [b])
            if a is not None:
                self.narrow(a, s.test, True)
                v0 = None
                if spec.decreases:
                    v0 = self.eval_contract_expr(a, spec.decreases, None, self.pre_state, want_bool=False)
                    self.oblige(a, v0.t >= 0, 'variant', label + ':bounded', node=s,
                                info={'claim': 'loop variant is non-negative: ' + spec.decreases})
                for e in self.exec_block(a, s.body):
                    if e.flow in ('normal', 'continue'):
                        e.flow = 'normal'
                        for cl, t in self.eval_clauses(e, spec.invariant, old_state=self.pre_state):
                            self.oblige(e, t, 'inv-pres', '%s:%s' % (label, cl.label), carries=cl.carries,
                                        node=s, info={'claim': 'loop invariant preserved: ' + cl.expr})
                        if v0 is not None:
                            v1 = self.eval_contract_expr(e, spec.decreases, None, self.pre_state, want_bool=False)
                            self.oblige(e, v1.t < v0.t, 'variant', label + ':decreases', node=s,
                                        info={'claim': 'loop variant decreases: ' + spec.decreases})
                        # path ends here
                    elif e.flow == 'break':
                        e.flow = 'normal'
                        out.append(e)
                    else:
                        out.append(e)
        return out

    def iter_source(self, st, it, node):
        """IterSrc for the supported iterables."""
        it = self.need_value(it) if not isinstance(it, Entity) else it
        if isinstance(it, Entity):
            raise OutsideSubset('iteration over entity')
        if isinstance(it.ty, TOpt):
            it = self.unwrap_opt(st, it, node, 'iteration')
        if isinstance(it.ty, TUnion):
            it = self.narrow_union(st, it, node, 'iteration', lambda t: isinstance(t, (TSeq, TMap)) or t == TStr)
        ty = it.ty
        if isinstance(ty, TSeq):
            if ty.elem is TBottom:
                return IterSrc(z3.IntVal(0), lambda s, i: NONE)
            return IterSrc(z3.Length(it.t), lambda s, i, it=it: self._closed(s, unbox(ty.elem, snth(ty.elem, it.t, i))))
        if ty == TStr:
            return IterSrc(z3.Length(it.t), lambda s, i, it=it: SV(TStr, z3.SubString(it.t, i, 1)))
        if isinstance(ty, TMap):
            keys = ty.keys(it.t)
            return IterSrc(z3.Length(keys), lambda s, i: unbox(ty.k, snth(ty.k, keys, i)))
        if isinstance(ty, TRef) and ty.cls.startswith('list:'):
            items = self.read_field(st, it, ty.cls, 'items')
            src = self.iter_source(st, items, node)
            src.unchanged = lambda s, it=it, items=items: self.read_field(s, it, ty.cls, 'items').t == items.t
            return src
        if isinstance(ty, TRef) and ty.cls.startswith('dict:'):
            items = self.read_field(st, it, ty.cls, 'items')
            return self.iter_source(st, items, node)
        if isinstance(ty, TRef):
            res = self.call_method(st, it, '__iter__', [], {}, node)
            if len(res) == 1 and normal(res[0][0]):
                return self.iter_source(res[0][0], res[0][1], node)
        raise OutsideSubset('iteration over ' + str(ty))

    def _closed(self, st, v):
        self.assume_ref_closed(st, v)
        return v

    def exec_For(self, st, s):
        out = []
        for s2, it in self.eval_iterable(st, s.iter):
            if not normal(s2):
                out.append(s2)
                continue
            if isinstance(it, SV) and isinstance(it.ty, TTuple):
                out.extend(self.unrolled_for(s2, s, list(it.t)))
                continue
            src = it if isinstance(it, IterSrc) else self.iter_source(s2, it, s)
            out.extend(self.for_with_invariant(s2, s, src))
        return out

    def eval_iterable(self, st, e):
        """Special forms: range(len(x)), range(n), d.items(), d.keys(), d.values(), list(x)."""
        if isinstance(e, ast.Call) and isinstance(e.func, ast.Name) and e.func.id == 'range' \
                and e.func.id not in st.env:
            outs = []
            for s2, vals in self.eval_many(st, e.args):
                if not normal(s2):
                    outs.append((s2, None))
                    continue
                if len(vals) == 1:
                    n = self.int_term(s2, vals[0], e, 'range')
                    n = z3.If(n < 0, z3.IntVal(0), n)
                    outs.append((s2, IterSrc(n, lambda s, i: SV(TInt, i))))
                elif len(vals) == 2:
                    a = self.int_term(s2, vals[0], e, 'range')
                    b = self.int_term(s2, vals[1], e, 'range')
                    outs.append((s2, IterSrc(z3.If(b < a, z3.IntVal(0), b - a), lambda s, i, a=a: SV(TInt, a + i))))
                else:
                    raise OutsideSubset('range with step')
            return outs
        if isinstance(e, ast.Call) and isinstance(e.func, ast.Attribute) \
                and e.func.attr in ('items', 'keys', 'values') and not e.args:
            outs = []
            pl = self.try_place(st, e.func.value)
            bases = pl if pl is not None else self.eval(st, e.func.value)
            for s2, base in bases:
                if not normal(s2):
                    outs.append((s2, None))
                    continue
                outs.append((s2, self.dict_iter(s2, base, e.func.attr, e)))
            return outs
        if isinstance(e, ast.Call) and isinstance(e.func, ast.Name) and e.func.id in ('list', 'tuple', 'iter') \
                and len(e.args) == 1 and e.func.id not in st.env:
            return self.eval_iterable(st, e.args[0])
        return self.eval(st, e)

    def dict_iter(self, st, base, what, node):
        """Live iteration over a dict: keys snapshot, values read at iteration time."""
        if isinstance(base, Place):
            getm = lambda s, base=base: self.container_of(s, base, node, 'iteration')[1]
        else:
            base = self.need_value(base)
            if self.dict_place(base) is not None:
                getm = lambda s, base=base: self.read_place(s, self.dict_place(base))
            elif isinstance(base.ty, TRef) and base.ty.cls.startswith('dict:'):
                getm = lambda s, base=base: self.read_field(s, base, base.ty.cls, 'items')
            elif isinstance(base.ty, TRef):
                res = self.call_method(st, base, what, [], {}, node)
                if len(res) == 1 and normal(res[0][0]):
                    return self.iter_source(res[0][0], res[0][1], node)
                raise OutsideSubset('dict-like iteration')
            else:
                getm = lambda s, base=base: base
        m0 = getm(st)
        if isinstance(m0.ty, TOpt):
            m0u = self.unwrap_opt(st, m0, node, 'iteration')
            getm0 = getm
            getm = lambda s: (lambda m: unbox(m.ty.inner, m.ty.val(m.t)))(getm0(s))
            m0 = m0u
        if isinstance(m0.ty, TUnion):
            cands = [(tag, t) for tag, t in m0.ty.alts if isinstance(t, TMap)]
            if len(cands) != 1:
                raise OutsideSubset('items() on ambiguous union')
            tag, alt = cands[0]
            self.oblige(st, m0.ty.is_tag(tag, m0.t), 'safety', 'slot-kind', node=node,
                        info={'claim': 'value is a dict for .%s() (AttributeError)' % what})
            getm1 = getm
            getm = lambda s: (lambda m: unbox(alt, m.ty.get(tag, m.t)))(getm1(s))
            m0 = getm(st)
        if not isinstance(m0.ty, TMap):
            raise OutsideSubset('.%s() on %s' % (what, m0.ty))
        if m0.ty.k is TBottom:
            return IterSrc(z3.IntVal(0), lambda s, i: NONE)
        mty = m0.ty
        keys0 = mty.keys(m0.t)

        def elem(s, i):
            k = unbox(mty.k, snth(mty.k, keys0, i))
            s.fact(z3.Contains(keys0, sunit(mty.k, box(k))))       # the i-th key is a key
            # consequences of the keys being pairwise distinct, stated at the index (the solvers do not
            # derive them from the quantified distinctness): the i-th key does not occur before
            # position i, and the prefix of length i+1 is the prefix of length i plus that key
            inr = z3.And(i >= 0, i < z3.Length(keys0))
            s.fact(z3.Implies(inr, z3.Not(z3.Contains(z3.Extract(keys0, z3.IntVal(0), i), sunit(mty.k, box(k))))))
            s.fact(z3.Implies(inr, z3.Extract(keys0, z3.IntVal(0), i + 1) == z3.Concat(z3.Extract(keys0, z3.IntVal(0), i), sunit(mty.k, box(k)))))
            # ... hence membership in the longer prefix = membership in the shorter one, or being that key
            mx = z3.Const(self.fresh_sym('mx'), mty.k.sort())
            s.fact(z3.Implies(inr, z3.ForAll([mx], z3.Contains(z3.Extract(keys0, z3.IntVal(0), i + 1), sunit(mty.k, mx)) ==
                                             z3.Or(z3.Contains(z3.Extract(keys0, z3.IntVal(0), i), sunit(mty.k, mx)), mx == box(k)))))
            if what == 'keys':
                return k
            m = getm(s)
            v = self.map_get(m, k)
            self.assume_ref_closed(s, v)
            if what == 'values':
                return v
            return SV(TTuple([k.ty, v.ty]), (k, v))

        def unchanged(s):
            m = getm(s)
            return mty.keys(m.t) == keys0

        src = IterSrc(z3.Length(keys0), elem, unchanged, desc='dict.' + what)
        src.keys0 = keys0
        st.assume(self.distinct_keys(keys0))
        return src

    def distinct_keys(self, keys):
        i = z3.Int('dk_i')
        j = z3.Int('dk_j')
        n = z3.Length(keys)
        return z3.ForAll([i, j], z3.Implies(z3.And(0 <= i, i < j, j < n), keys[i] != keys[j]))

    def unrolled_for(self, st, s, items):
        states = [st]
        broke = []
        for it in items:
            nxt = []
            for cur in states:
                if not normal(cur):
                    nxt.append(cur)
                    continue
                for a in self.assign(cur, s.target, it, s):
                    for e in self.exec_block(a, s.body):
                        if e.flow == 'continue':
                            e.flow = 'normal'
                        if e.flow == 'break':
                            e.flow = 'normal'
                            broke.append(e)
                        else:
                            nxt.append(e)
            states = nxt
        out = []
        for cur in states:
            if normal(cur) and s.orelse:
                out.extend(self.exec_block(cur, s.orelse))
            else:
                out.append(cur)
        return out + broke

    def for_with_invariant(self, st, s, src):
        spec, ordn = self.loop_spec(s)
        label = 'loop%s' % ordn
        if spec is None:
            self.undeclared_loops.append(ordn)
            from .api import Loop
            spec = Loop()
        idx_name = spec.index or ('_i%s' % ordn)
        st.env[idx_name] = mk_int(0)
        if not hasattr(self, 'loop_entries'):
            self.loop_entries = {}
        self.loop_entries[ordn] = st.copy()
        for cl, t in self.eval_clauses(st, spec.invariant, old_state=self.pre_state, loop_ord=ordn):
            self.oblige(st, t, 'inv-entry', '%s:%s' % (label, cl.label), carries=cl.carries, node=s,
                        info={'claim': 'loop invariant holds on entry: ' + cl.expr})
        self.havoc_for_loop(st, spec, s.body + s.orelse)
        i = fresh(TInt, idx_name)
        st.env[idx_name] = i
        st.assume(z3.And(i.t >= 0, i.t <= src.length))
        st.mark('loop%s' % ordn)
        if src.unchanged is not None:
            st.assume(src.unchanged(st))
        for cl, t in self.eval_clauses(st, spec.invariant, old_state=self.pre_state, loop_ord=ordn):
            st.assume(t)
        out = []
        done, more = self.fork(st, i.t == src.length, None, 'for%s-done' % ordn)
        if done is not None:
            if getattr(src, 'keys0', None) is not None:
                # all keys visited: the prefix of that length is the whole key sequence
                done.fact(z3.Implies(i.t == z3.Length(src.keys0), z3.Extract(src.keys0, z3.IntVal(0), i.t) == src.keys0))
            out.extend(self.exec_block(done, s.orelse) if s.orelse else [done])
        if more is not None:
            more.assume(i.t < src.length)
            x = src.elem(more, i.t)
            for a in self.assign(more, s.target, x, s):
                for e in self.exec_block(a, s.body):
                    if e.flow in ('normal', 'continue'):
                        e.flow = 'normal'
                        saved_lo_ = getattr(self, 'cur_loop_ord', None)
                        self.cur_loop_ord = ordn
                        try:
                            for h in spec.hints:
                                self.eval_contract_expr(e, h, None, self.pre_state, want_bool=False)
                        finally:
                            self.cur_loop_ord = saved_lo_
                        e.env[idx_name] = SV(TInt, i.t + 1)
                        if src.unchanged is not None:
                            self.oblige(e, src.unchanged(e), 'safety', label + ':iterated-unchanged', node=s,
                                        info={'claim': 'the container being iterated keeps its keys / items during the loop (RuntimeError or skipped items otherwise)'})
                        for cl, t in self.eval_clauses(e, spec.invariant, old_state=self.pre_state, loop_ord=ordn):
                            self.oblige(e, t, 'inv-pres', '%s:%s' % (label, cl.label), carries=cl.carries,
                                        node=s, info={'claim': 'loop invariant preserved: ' + cl.expr})
                    elif e.flow == 'break':
                        e.flow = 'normal'
                        out.append(e)
                    else:
                        out.append(e)
        return out


def is_bottom(ty):
    from .values import is_bottom_container
    return is_bottom_container(ty)
