"""Symbolic values: SV(ty, t), boxing, coercion, merging."""
import z3

from .types import elem_sort, snth, sunit
from .types import (TBool, TInt, TMap, TNone, TOpaque, TOpt, TRef, TSeq, TStr,
                    TTuple, TUnion, TFun, Type, join, none_term, opt)


class OutsideSubset(Exception):
    """The construct is outside the verifiable subset: the function is
    undecided (never a verdict)."""


class TypeMismatch(OutsideSubset):
    pass


class PathEnds(Exception):
    """The current path cannot continue: an operation on it certainly raises an internal
    error (e.g. attribute of None).  The failed safety obligation has been recorded."""


class TBottomT(Type):
    """Element type of an empty literal container, unified on first use."""

    def key(self):
        return 'bottom'

    def sort(self):
        raise OutsideSubset('bottom type has no sort')


TBottom = TBottomT()


class SV:
    __slots__ = ('ty', 't')

    def __init__(self, ty, t):
        self.ty = ty
        self.t = t

    def __repr__(self):
        return 'SV(%s, %s)' % (self.ty, self.t)


NONE = SV(TNone, none_term())


def mk_int(n):
    return SV(TInt, z3.IntVal(n))


def mk_bool(b):
    return SV(TBool, z3.BoolVal(bool(b)))


def mk_str(s):
    return SV(TStr, z3.StringVal(s))


_fresh_counter = [0]


def fresh_name(prefix):
    _fresh_counter[0] += 1
    return '%s!%d' % (prefix, _fresh_counter[0])


def fresh(ty, prefix='v'):
    """A fresh unconstrained symbolic value of type ty."""
    if isinstance(ty, TTuple):
        return SV(ty, tuple(fresh(t, prefix) for t in ty.items))
    if ty == TNone:
        return NONE
    return SV(ty, z3.Const(fresh_name(prefix), ty.sort()))


def named(ty, name):
    if isinstance(ty, TTuple):
        return SV(ty, tuple(named(t, '%s.%d' % (name, i)) for i, t in enumerate(ty.items)))
    if ty == TNone:
        return NONE
    return SV(ty, z3.Const(name, ty.sort()))


def box(sv):
    """z3 term of sv (tuples become datatype terms)."""
    if isinstance(sv.ty, TTuple):
        return sv.ty.mk([box(x) for x in sv.t])
    if isinstance(sv.ty, TSeq) and sv.ty.elem is TBottom:
        raise OutsideSubset('empty literal container of unknown element type')
    return sv.t


def unbox(ty, term):
    if isinstance(ty, TTuple):
        return SV(ty, tuple(unbox(t, ty.proj(term, i)) for i, t in enumerate(ty.items)))
    if ty == TNone:
        return NONE
    return SV(ty, term)


def is_bottom_container(ty):
    return (isinstance(ty, TSeq) and ty.elem is TBottom) or \
        (isinstance(ty, TMap) and ty.k is TBottom)


def coerce(sv, ty, classes=None):
    """Coerce sv to type ty (a supertype) or raise TypeMismatch.
    `classes` (optional) is the class table used for Ref subtyping."""
    s = sv.ty
    if s == ty:
        return sv
    if isinstance(ty, TOpt):
        if s == TNone:
            return SV(ty, ty.none())
        if isinstance(s, TOpt):
            inner_none = s.is_none(sv.t)
            inner = coerce(unbox(s.inner, s.val(sv.t)), ty.inner, classes)
            return SV(ty, z3.If(inner_none, ty.none(), ty.some(box(inner))))
        inner = coerce(sv, ty.inner, classes)
        return SV(ty, ty.some(box(inner)))
    if isinstance(ty, TTuple) and isinstance(s, TTuple) and len(ty.items) == len(s.items):
        return SV(ty, tuple(coerce(x, t, classes) for x, t in zip(sv.t, ty.items)))
    if isinstance(ty, TSeq) and isinstance(s, TSeq):
        if s.elem is TBottom:
            return SV(ty, z3.Empty(ty.sort()))
        if sv.t is not None and sv.t.get_id() in _LITERALS:
            # a list display: rebuild it with the wider element type
            return SV(ty, _SeqLit(_LITERALS[sv.t.get_id()][1]).build(ty, classes))
    if isinstance(ty, TSeq) and isinstance(s, TTuple):
        # a tuple display used where a variable-length sequence is declared
        return SV(ty, _SeqLit(list(sv.t)).build(ty, classes))
    if isinstance(ty, TMap) and isinstance(s, TMap) and s.k is TBottom:
        return SV(ty, empty_map(ty))
    if isinstance(ty, TUnion):
        tag = ty.tag_of(s)
        if tag is not None:
            return SV(ty, ty.inject(tag, None if s == TNone else box(sv)))
        # try coercible alternative (unique)
        cands = []
        for tg, alt in ty.alts:
            try:
                c = coerce(sv, alt, classes)
            except TypeMismatch:
                continue
            cands.append((tg, alt, c))
        if len(cands) > 1:
            # prefer a structural fit over the any-value injection
            non_inj = [x for x in cands if not (isinstance(x[1], TOpaque) and not isinstance(s, TOpaque))]
            if non_inj:
                cands = non_inj
        if len(cands) == 1:
            tg, alt, c = cands[0]
            return SV(ty, ty.inject(tg, None if alt == TNone else box(c)))
        if isinstance(s, TOpt):
            # None | X  into a union having both
            tn = ty.tag_of(TNone)
            if tn is not None:
                inner = coerce(unbox(s.inner, s.val(sv.t)), ty, classes)
                return SV(ty, z3.If(s.is_none(sv.t), ty.inject(tn), inner.t))
    if isinstance(ty, TRef) and isinstance(s, TRef) and classes is not None:
        if classes.is_subclass(s.cls, ty.cls):
            return SV(ty, sv.t)
    if isinstance(ty, TFun) and isinstance(s, TFun) and ty.name == 'dt' and s.name == 'sdt':
        # a section datatype stored where a key datatype is expected (BaseInfo.datatype of a section
        # slot, never called as a key datatype): an opaque embedding
        from .strops import ufun
        return SV(ty, ufun('dt_of_sdt', s.sort(), ty.sort())(sv.t))
    if ty == TInt and s == TBool:
        return SV(TInt, z3.If(sv.t, z3.IntVal(1), z3.IntVal(0)))
    if isinstance(ty, TOpaque) and ty.name == 'PyVal' and not isinstance(s, TOpaque) and not is_bottom_container(s):
        # any Python value can be used where an arbitrary value is expected (injection)
        from .strops import ufun
        b = box(sv)
        f = ufun('pyval_of_' + ''.join(ch if ch.isalnum() else '_' for ch in s.key()), b.sort(), ty.sort())
        return SV(ty, f(b))
    raise TypeMismatch('cannot use %s as %s' % (s, ty))


class _SeqLit:
    """Deferred list literal whose element type is decided on coercion."""

    def __init__(self, items):
        self.items = items

    def build(self, ty, classes):
        out = z3.Empty(ty.sort())
        parts = []
        for it in self.items:
            parts.append(sunit(ty.elem, box(coerce(it, ty.elem, classes))))
        if not parts:
            return out
        if len(parts) == 1:
            return parts[0]
        return z3.Concat(*parts)


def seq_literal(items, classes=None):
    if not items:
        return SV(TSeq(TBottom), None)
    ty = items[0].ty
    for it in items[1:]:
        j = join(ty, it.ty)
        if j is None:
            raise OutsideSubset('heterogeneous list literal')
        ty = j
    sty = TSeq(ty)
    term = _SeqLit(items).build(sty, classes)
    _LITERALS[term.get_id()] = (term, list(items))     # keeps the term alive, so the id stays unique
    return SV(sty, term)


_LITERALS = {}


def empty_map(ty):
    # the value array of an empty mapping is one fixed, otherwise unconstrained array per map type
    # (content under absent keys is never observable); not a constant-array term, whose default
    # cvc5 only accepts as a literal value
    name = 'emptyvals_' + ''.join(ch if ch.isalnum() else '_' for ch in ty.key())
    return ty.mk(z3.Empty(z3.SeqSort(elem_sort(ty.k))),
                 z3.Const(name, z3.ArraySort(ty.k.sort(), ty.v.sort())))


def default_term(ty):
    """Some arbitrary but fixed term of the sort (content of absent map slots)."""
    return z3.Const('dflt_' + ty.key().replace('[', '_').replace(']', '_').replace(',', '_').replace(':', '_'),
                    ty.sort()) if not isinstance(ty, TTuple) else \
        ty.mk([default_term(t) for t in ty.items])


def merge(cond, a, b, classes=None):
    """ite(cond, a, b) with type join."""
    if a.ty == b.ty:
        ty = a.ty
    else:
        ty = join(a.ty, b.ty)
        if ty is None and is_bottom_container(a.ty):
            ty = b.ty
        if ty is None and is_bottom_container(b.ty):
            ty = a.ty
        if ty is None:
            raise OutsideSubset('cannot merge %s and %s' % (a.ty, b.ty))
    a = coerce(a, ty, classes)
    b = coerce(b, ty, classes)
    if isinstance(ty, TTuple):
        return SV(ty, tuple(merge(cond, x, y, classes) for x, y in zip(a.t, b.t)))
    if ty == TNone:
        return NONE
    return SV(ty, z3.If(cond, a.t, b.t))


def eq_term(a, b, classes=None):
    """z3 Bool: Python `a == b` for the supported types (structural)."""
    if a.ty == b.ty:
        if isinstance(a.ty, TTuple):
            return z3.And([eq_term(x, y, classes) for x, y in zip(a.t, b.t)]) if a.t else z3.BoolVal(True)
        if a.ty == TNone:
            return z3.BoolVal(True)
        if isinstance(a.ty, TSeq) and a.ty.elem is TBottom:
            return z3.BoolVal(True)
        return a.t == b.t
    # None vs Opt etc.
    if a.ty == TNone and isinstance(b.ty, TOpt):
        return b.ty.is_none(b.t)
    if b.ty == TNone and isinstance(a.ty, TOpt):
        return a.ty.is_none(a.t)
    if isinstance(a.ty, TTuple) and isinstance(b.ty, TTuple):
        if len(a.ty.items) != len(b.ty.items):
            return z3.BoolVal(False)
        return z3.And([eq_term(x, y, classes) for x, y in zip(a.t, b.t)])
    if isinstance(a.ty, TMap) and isinstance(b.ty, TMap) and (a.ty.k is TBottom or b.ty.k is TBottom):
        if a.ty.k is TBottom and b.ty.k is TBottom:
            return z3.BoolVal(True)
        # `m == {}`: the canonical empty mapping of that type (what storing an empty dict literal gives)
        return (b.t == empty_map(b.ty)) if a.ty.k is TBottom else (a.t == empty_map(a.ty))
    if isinstance(a.ty, TSeq) and isinstance(b.ty, TSeq):
        if a.ty.elem is TBottom:
            return z3.Length(b.t) == 0
        if b.ty.elem is TBottom:
            return z3.Length(a.t) == 0
    j = join(a.ty, b.ty)
    if j is not None:
        return eq_term(coerce(a, j, classes), coerce(b, j, classes), classes)
    if isinstance(a.ty, TUnion):
        try:
            return eq_term(a, coerce(b, a.ty, classes), classes)
        except TypeMismatch:
            return z3.BoolVal(False)
    if isinstance(b.ty, TUnion):
        return eq_term(b, a, classes)
    if isinstance(a.ty, TRef) and isinstance(b.ty, TRef):
        return a.t == b.t
    # values of unrelated types are never equal in Python (str vs None, ...)
    return z3.BoolVal(False)
