"""setup_cmd: byte-compile, check tools are present, run cheap self-tests."""
import compileall, os, shutil, subprocess, sys
HERE = os.path.dirname(os.path.dirname(os.path.abspath(__file__)))


def main():
    ok = compileall.compile_dir(os.path.join(HERE, 'pyvc'), quiet=1)
    import z3
    assert shutil.which('cvc5'), 'cvc5 missing'
    assert os.path.exists('/venv/bin/python')
    # encoders vs CPython on a fixed corpus
    from pyvc import strops
    s = z3.String('s')
    for text in ['', 'a', 'ab$', '$$x', 'hello']:
        for lo, hi in [(None, None), (1, None), (None, -1), (2, -1), (-1, None), (0, 1), (1, 2), (5, 9)]:
            t = strops.slice_(z3.StringVal(text), None if lo is None else z3.IntVal(lo), None if hi is None else z3.IntVal(hi))
            got = z3.simplify(t).as_string()
            assert got == text[lo:hi], (text, lo, hi, got)
    # the native replay harness must work under the repository's interpreter (no z3 there)
    import json
    r = subprocess.run(['/venv/bin/python', '-m', 'pyvc.replay', 'check', 'substitution.substitute',
                        json.dumps({'s': 'x$$y$a', 'mapping': {'a': 'v'}})], capture_output=True, text=True, cwd=HERE)
    rr = json.loads(r.stdout)
    assert rr.get('admissible') and rr.get('failed') == [] and rr['observed'] == {'returns': repr('x$yv')}, (r.stdout, r.stderr[-500:])
    print('pyvc selftest ok (z3 %s)' % z3.get_version_string())
    return 0 if ok else 1


if __name__ == '__main__':
    sys.exit(main())
