"""Executor state, places, obligations."""
import hashlib

import z3


class Place:
    """A borrow of a (possibly nested) owned-container location.

    root : ('field', ref_term, fieldkey)  or ('local', name)
    path : list of steps ('key', SV) | ('idx', SV) | ('alt', tag) | ('opt',)
    """
    __slots__ = ('root', 'path', 'stale')

    def __init__(self, root, path=()):
        self.root = root
        self.path = tuple(path)
        self.stale = None      # snapshot SV once the root location was overwritten

    def extend(self, step):
        return Place(self.root, self.path + (step,))

    def __repr__(self):
        return 'Place(%s, %s)' % (self.root, self.path)


class ExcInfo:
    __slots__ = ('cls', 'ref', 'opaque_cls')

    def __init__(self, cls, ref, opaque_cls=False):
        self.cls = cls          # static class qualname ('__init__.ConfigurationError', 'builtin:ValueError')
        self.ref = ref          # SV (TRef) of the exception object
        self.opaque_cls = opaque_cls   # True: dynamic class may be any subclass of cls


class State:
    def __init__(self):
        self.pc = ()
        self.facts = ()
        self.env = {}
        self.heap = {}
        self.alloc = None
        self.alloc0 = None
        self.ghost = {}
        self.flow = 'normal'      # normal | break | continue | return | raise
        self.ret = None
        self.exc = None
        self.trail = ()
        self.handling = ()        # stack of ExcInfo being handled (for bare raise)
        self.init_assigned = None  # set of field names assigned (when verifying __init__)
        self.notes = ()
        self.closed_arrays = ()   # (heap array term, field type, alloc bound): refs stored in it are < bound
        self.model = None         # (z3 model, len(pc), len(facts)) of the last successful feasibility check

    def copy(self):
        s = State.__new__(State)
        s.pc = self.pc
        s.facts = self.facts
        s.env = dict(self.env)
        s.heap = dict(self.heap)
        s.alloc = self.alloc
        s.alloc0 = self.alloc0
        s.ghost = dict(self.ghost)
        s.flow = self.flow
        s.ret = self.ret
        s.exc = self.exc
        s.trail = self.trail
        s.handling = self.handling
        s.init_assigned = None if self.init_assigned is None else set(self.init_assigned)
        s.notes = self.notes
        s.closed_arrays = self.closed_arrays
        s.model = self.model
        return s

    def assume(self, term):
        if z3.is_true(term):
            return
        self.pc = self.pc + (term,)

    def fact(self, term):
        """A definitional fact (instance of a definition / axiom): valid on every path."""
        if z3.is_true(term):
            return
        for f in self.facts:
            if f.eq(term):
                return
        self.facts = self.facts + (term,)

    def mark(self, what):
        self.trail = self.trail + (what,)

    def fingerprint(self):
        h = hashlib.sha256('|'.join(self.trail).encode()).hexdigest()
        return h[:10]


_hq_cache = {}


def has_quantifier(t):
    k = t.get_id()
    if k not in _hq_cache:
        _hq_cache[k] = (_has_quantifier(t), t)       # (the term is kept alive: ids stay unique)
    return _hq_cache[k][0]


def _has_quantifier(t):
    todo = [t]
    seen = set()
    while todo:
        x = todo.pop()
        if x.get_id() in seen:
            continue
        seen.add(x.get_id())
        if z3.is_quantifier(x):
            return True
        if z3.is_app(x):
            todo.extend(x.children())
    return False


_sym_cache = {}
_GENERIC = ('cls_of', 'alloc0')


def symbols_of(t):
    """Names of the uninterpreted constants / functions occurring in t (heap arrays and
    generic bookkeeping symbols excluded: they occur almost everywhere)."""
    k = t.get_id()
    if k in _sym_cache:
        return _sym_cache[k]
    out = set()
    todo = [t]
    seen = set()
    while todo:
        x = todo.pop()
        if x.get_id() in seen:
            continue
        seen.add(x.get_id())
        if z3.is_quantifier(x):
            todo.append(x.body())
            continue
        if z3.is_app(x):
            d = x.decl()
            if d.kind() == z3.Z3_OP_UNINTERPRETED:
                n = d.name()
                if not n.startswith('H0_') and not n.startswith('H_') and n not in _GENERIC and not n.startswith('alloc!'):
                    out.add(n)
            todo.extend(x.children())
    _sym_cache[k] = frozenset(out)
    return _sym_cache[k]


def qf_parts(t, guards=()):
    """Quantifier-free consequences of an assumption t: t itself when it has no quantifier; for a
    conjunction / a guarded conjunction the quantifier-free conjuncts (each under the guards); nothing
    for a quantified leaf.  Sound: every part is implied by t."""
    if not has_quantifier(t):
        return [z3.Implies(z3.And(list(guards)), t) if guards else t]
    if z3.is_and(t):
        out = []
        for c in t.children():
            out.extend(qf_parts(c, guards))
        return out
    if z3.is_implies(t) and not has_quantifier(t.arg(0)):
        return qf_parts(t.arg(1), guards + (t.arg(0),))
    return []


class Obligation:
    def __init__(self, func, kind, label, pc, claim, trail, carries=None, info=None,
                 lineno=None):
        self.func = func
        self.kind = kind            # safety | pre | post | exc-post | exc-escape | inv-entry | inv-pres | variant | frame | type | lemma | rx
        self.label = label
        self.pc = tuple(pc)
        self.claim = claim
        self.trail = tuple(trail)
        self.carries = carries
        self.info = info or {}
        self.lineno = lineno
        self.result = None          # filled by the back end
        self.fact_ids = frozenset()  # ids of the terms of pc that are definitional facts (oblige() sets it)
        fp = hashlib.sha256('|'.join(self.trail).encode()).hexdigest()[:8]
        self.fp = fp
        self.id = '%s#%s:%s@%s' % (func, kind, label, fp)

    def formula(self, light=False):
        """The formula whose unsatisfiability discharges the obligation.  light: without the
        quantified assumptions (their instances at the path's index terms are kept) - fewer
        hypotheses, so `unsat` is still a proof; tried first because it is quantifier-free."""
        pc = list(self.pc)
        if light:
            # definitional facts (unfolded specification functions, prefix-membership facts of a dict
            # iteration) are kept even when their body has a quantifier: there are few of them and
            # a claim about an unfolded function cannot be proved without its definition
            pc = [p for t in pc for p in qf_parts(t)]
        return pc + [z3.Not(self.claim)]

    def has_quantified_facts(self):
        return False      # (experiment withdrawn: keeping quantified definitional facts in the light variant did not help)

    def formula_coi(self, rounds=3):
        """Cone of influence: only the quantifier-free assumptions that share symbols
        (transitively, `rounds` rounds) with the claim.  Fewer hypotheses: `unsat` is a proof."""
        pc = [p for t in self.pc for p in qf_parts(t)]
        syms = [symbols_of(t) for t in pc]
        want = set(symbols_of(self.claim))
        keep = [False] * len(pc)
        for _ in range(rounds):
            changed = False
            for i, sset in enumerate(syms):
                if not keep[i] and sset & want:
                    keep[i] = True
                    want |= sset
                    changed = True
            if not changed:
                break
        return [t for t, k in zip(pc, keep) if k] + [z3.Not(self.claim)]

    def has_quantified_assumptions(self):
        return any(has_quantifier(t) for t in self.pc)

    def readable(self):
        return {'id': self.id, 'kind': self.kind, 'claim': self.info.get('claim', self.label),
                'carries': self.carries, 'line': self.lineno}
