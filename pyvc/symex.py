"""Symbolic executor for the verifiable Python subset (part 1: infrastructure
and expressions).  Statements are in symex_stmt.py, calls in symex_call.py;
the three are mixed into one Executor class in executor.py."""
import ast

import z3

from . import api, strops
from .state import ExcInfo, Obligation, Place, State
from .types import snth, sunit, wrap
from .types import (TBool, TFun, TInt, TMap, TNone, TOpaque, TOpt, TRef, TSeq, TStr,
                    TTuple, TUnion, join, opt, parse_type)
from .values import PathEnds
from .values import (NONE, SV, OutsideSubset, TBottom, TypeMismatch, box, coerce,
                     default_term, empty_map, eq_term, fresh, is_bottom_container,
                     merge, mk_bool, mk_int, mk_str, seq_literal, unbox)


class Entity:
    """A non-value thing an expression can denote: module, class, function,
    bound method, builtin, spec function, primitive."""
    __slots__ = ('kind', 'data', 'self_sv')

    def __init__(self, kind, data, self_sv=None):
        self.kind = kind
        self.data = data
        self.self_sv = self_sv

    def __repr__(self):
        return 'Entity(%s, %s)' % (self.kind, self.data)


def normal(st):
    return st.flow == 'normal'


def cond_fingerprint(node):
    """Structure of an expression with local names alpha-renamed."""
    names = {}

    class R(ast.NodeTransformer):
        def visit_Name(self, n):
            if n.id not in names:
                names[n.id] = 'v%d' % len(names)
            return ast.Name(id=names[n.id], ctx=ast.Load())
    import copy
    return ast.dump(R().visit(copy.deepcopy(node)))


_skd_counter = [0]


def skolemize(claim, definitional=False):
    """Replace universally quantified variables in positive position of a claim by
    fresh constants (proving P(c) for an arbitrary c proves forall x. P(x)).
    definitional: the formula is the body of an unfolded specification function (names are made
    globally unique, `skd!..`, and if-then-else is descended into)."""
    skolems = []

    def go(t):
        if z3.is_quantifier(t) and t.is_forall():
            cs = []
            for i in range(t.num_vars()):
                if definitional:
                    _skd_counter[0] += 1
                    c = z3.Const('skd!%d_%s' % (_skd_counter[0], t.var_name(i)), t.var_sort(i))
                else:
                    c = z3.Const('sk!%d_%s' % (len(skolems), t.var_name(i)), t.var_sort(i))
                skolems.append(c)
                cs.append(c)
            # de Bruijn: var 0 is the LAST bound variable
            return go(z3.substitute_vars(t.body(), *reversed(cs)))
        if z3.is_and(t):
            return z3.And([go(c) for c in t.children()])
        if z3.is_implies(t):
            return z3.Implies(t.arg(0), go(t.arg(1)))
        if definitional and z3.is_app_of(t, z3.Z3_OP_ITE) and t.sort() == z3.BoolSort():
            return z3.If(t.arg(0), go(t.arg(1)), go(t.arg(2)))
        return t
    try:
        return go(claim), skolems
    except Exception:
        return claim, []


_qcache = {}


def _has_quantifier(t):
    k = t.get_id()
    if k in _qcache:
        return _qcache[k]
    todo = [t]
    seen = set()
    res = False
    while todo:
        x = todo.pop()
        if x.get_id() in seen:
            continue
        seen.add(x.get_id())
        if z3.is_quantifier(x):
            res = True
            break
        if z3.is_app(x):
            todo.extend(x.children())
    _qcache[k] = res
    return res


def _top_foralls(t, guards=()):
    """(guards, forall) pairs for universally quantified formulas in positive position:
    at top level, inside conjunctions and in the consequent of implications."""
    if z3.is_quantifier(t) and t.is_forall():
        return [(guards, t)]
    if z3.is_and(t):
        out = []
        for c in t.children():
            out.extend(_top_foralls(c, guards))
        return out
    if z3.is_implies(t):
        return _top_foralls(t.arg(1), guards + (t.arg(0),))
    return []


class ExprMixin:
    # ------------------------------------------------------------------
    # obligations
    # ------------------------------------------------------------------
    def oblige(self, st, claim, kind, label, carries=None, node=None, info=None):
        """Record `claim` as an obligation under the current path condition,
        then assume it."""
        if isinstance(claim, bool):
            claim = z3.BoolVal(claim)
        if self.spec_depth > 0 or self.in_contract:
            # inside specification code: no obligations, totality is the spec author's
            return
        claim0 = claim
        claim, skolems = skolemize(claim)
        inst = self.instantiate_foralls(st, skolems) + self.instantiate_frames(st, claim) + self.closure_instances(st, claim)
        ob = Obligation(self.fn_name, kind, label, st.pc + st.facts + inst, claim, st.trail,
                        carries=carries, info=info,
                        lineno=getattr(node, 'lineno', None))
        ob.fact_ids = frozenset(t.get_id() for t in st.facts)
        self.obls.append(ob)
        st.assume(claim0)

    def definitional_skolems(self, st):
        """Skolem constants introduced when a Boolean specification function with a quantified body
        was unfolded (`body at fresh constants  ==>  application`): the quantified assumptions of the
        path are instantiated at them too."""
        if not hasattr(self, '_skd_cache'):
            self._skd_cache = {}
        out, seen = [], set()
        for f in st.facts:
            k = f.get_id()
            if k not in self._skd_cache:
                found = []
                todo, vis = [f], set()
                while todo:
                    x = todo.pop()
                    if x.get_id() in vis:
                        continue
                    vis.add(x.get_id())
                    if z3.is_quantifier(x):
                        todo.append(x.body())
                    elif z3.is_app(x):
                        if x.num_args() == 0 and x.decl().kind() == z3.Z3_OP_UNINTERPRETED and x.decl().name().startswith('skd!'):
                            found.append(x)
                        todo.extend(x.children())
                self._skd_cache[k] = (found, f)
            for c in self._skd_cache[k][0]:
                if c.get_id() not in seen:
                    seen.add(c.get_id())
                    out.append(c)
        return out[:12]

    def instantiate_foralls(self, st, skolems=()):
        """Instances of the universally quantified assumptions (class / loop invariants over
        container indices) at the integer locals of the current path: the sequence solvers
        rarely find them by themselves.  Sound: instances of assumed formulas."""
        ints, strs = [], []
        for name, v in st.env.items():
            if isinstance(v, SV) and v.ty == TInt and not z3.is_int_value(v.t):
                ints.append(v.t)
            elif isinstance(v, SV) and v.ty == TStr and not z3.is_string_value(v.t):
                strs.append(v.t)
        ints = ints[:6]
        strs = strs[:5]
        for t in self.extra_inst_terms:
            (ints if t.sort() == z3.IntSort() else strs if t.sort() == z3.StringSort() else []).append(t)
        # the Skolem constants of the claim come FIRST: they are the instances a proof needs
        sk_ints = [s for s in skolems if s.sort() == z3.IntSort()][:6]
        ints_all = sk_ints + ints
        strs = [s for s in skolems if s.sort() == z3.StringSort()][:5] + strs
        if not ints_all and not strs:
            return ()
        isort, ssort = z3.IntSort(), z3.StringSort()

        def pool(sort, wide):
            if sort == isort:
                # Skolem constants as they are; integer locals (loop indices) also at their neighbours
                return list(sk_ints) + [x for c in ints for x in ((c, c - 1, c + 1) if wide else (c,))]
            if sort == ssort:
                return strs
            return None
        out = []
        def guarded(gs, body):
            return z3.Implies(z3.And(list(gs)), body) if gs else body
        # two rounds: an instance may itself be (a conjunction / implication ending in) a universally
        # quantified formula - a class invariant of another object stated as `forall i. ... forall x, j. ...`
        # (facts are scanned too: `application ==> body` of an unfolded Boolean specification function)
        todo = list(st.pc) + [f for f in st.facts if (z3.is_implies(f) or z3.is_quantifier(f)) and _has_quantifier(f)]
        sk_ids = {c.get_id() for c in skolems}
        nested = []        # instances at Skolem constants that are quantified themselves: second round
        for round_ in (0, 1):
          start = len(out)
          nested = []
          for t in todo:
            for gs, q in _top_foralls(t):
                n = q.num_vars()
                if n == 1:
                    p = pool(q.var_sort(0), True)
                    for inst in (p or ()):
                        out.append(guarded(gs, z3.substitute_vars(q.body(), inst)))
                        if inst.get_id() in sk_ids and _has_quantifier(out[-1]):
                            nested.append(out[-1])
                elif n == 2:
                    # substitute_vars: Var(0) is the LAST declared variable
                    # (index locals of a for loop hold i + 1 at the end of an iteration while the
                    # element handled was at i: the neighbours c - 1 / c + 1 are candidates too)
                    pa = pool(q.var_sort(1), True)       # Var(0) = second declared variable
                    pb = pool(q.var_sort(0), True)       # Var(1) = first declared variable
                    if pa is None or pb is None:
                        continue
                    for a in pa[:12]:
                        for b in pb[:12]:
                            if not z3.eq(a, b):
                                out.append(guarded(gs, z3.substitute_vars(q.body(), a, b)))
          # second round: first the quantified instances taken at the claim's Skolem constants (they
          # are the ones a proof needs), then the others, up to a cap
          ids_ = {t.get_id() for t in nested}
          todo = (nested + [t for t in out[start:] if t.get_id() not in ids_ and _has_quantifier(t)])[:90]
          if not todo:
              break
        return tuple(out)

    def instantiate_frames(self, st, claim):
        """Frame axioms `forall r < alloc: H'[r] == H[r]` (objects that existed before a loop / call
        keep their fields) instantiated at the object references the claim reads."""
        frames = []
        for t in st.pc:
            if z3.is_quantifier(t) and t.is_forall() and t.num_vars() == 1 and t.var_name(0).startswith('fr!'):
                frames.append(t)
        if not frames:
            return ()
        refs, seen, todo = [], set(), [claim]
        while todo and len(refs) < 40:
            x = todo.pop()
            if x.get_id() in seen:
                continue
            seen.add(x.get_id())
            if z3.is_quantifier(x):
                continue
            if z3.is_app(x):
                if x.decl().kind() == z3.Z3_OP_SELECT and x.num_args() == 2 and x.arg(1).sort() == z3.IntSort():
                    a0 = x.arg(0)
                    name = a0.decl().name() if z3.is_app(a0) and a0.num_args() == 0 else ''
                    if name.startswith('H') or z3.is_app(a0):
                        r = x.arg(1)
                        if not any(r.eq(y) for y in refs):
                            refs.append(r)
                todo.extend(x.children())
        out = []
        for q in frames:
            for r in refs:
                out.append(z3.substitute_vars(q.body(), r))
        return tuple(out)

    def feasible(self, st, extra=None, timeout_ms=None):
        """Cheap satisfiability check of the path condition (unknown = feasible)."""
        if self.spec_depth > 0:
            return True
        # quantified assumptions are left out: they only make the check slower (dropping
        # assumptions can only make fewer paths look infeasible - sound for pruning)
        # a model found for a prefix of this path may already satisfy what was added since
        # (cheap evaluation instead of a solver call; most forks have two feasible sides)
        if st.model is not None:
            m, npc, nf = st.model
            if npc <= len(st.pc) and nf <= len(st.facts):
                new = [t for t in list(st.pc[npc:]) + list(st.facts[nf:]) if not _has_quantifier(t)]
                if extra is not None:
                    new.append(extra)
                try:
                    if all(z3.is_true(m.eval(t, model_completion=True)) for t in new):
                        if extra is None:
                            st.model = (m, len(st.pc), len(st.facts))
                        return True
                except z3.Z3Exception:
                    pass
        terms = [t for t in list(st.pc) + list(st.facts) if not _has_quantifier(t)]
        terms.extend(self.instantiate_foralls(st))
        if extra is not None:
            terms.append(extra)
        if not terms:
            return True
        s = z3.Solver()
        s.set('timeout', timeout_ms or self.feas_timeout_ms)
        s.add(*terms)
        self.feas_checks += 1
        r = s.check()
        if r == z3.sat and extra is None:
            try:
                st.model = (s.model(), len(st.pc), len(st.facts))
            except z3.Z3Exception:
                st.model = None
        return r != z3.unsat

    # ------------------------------------------------------------------
    # heap
    # ------------------------------------------------------------------
    def heap_array(self, st, fkey, ty):
        if self.heap_reads is not None:
            self.heap_reads.add(fkey)
        if fkey not in st.heap:
            st.heap[fkey] = z3.Const('H0_%s_%s' % (fkey[0].replace('.', '_').replace(':', '_'), fkey[1]),
                                     z3.ArraySort(z3.IntSort(), self.field_sort(ty)))
            if fkey not in self.initial_arrays:
                self.initial_arrays[fkey] = (st.heap[fkey], ty)
        return st.heap[fkey]

    def closure_instances(self, st, claim):
        """The initial heap is closed: every reference stored in a field (directly, or inside a
        list of tuples) of the heap the function was entered with denotes an object that existed
        then (< alloc0).  Instances at the references / list positions the claim talks about."""
        if st.alloc0 is None or not self.initial_arrays:
            return ()
        refs, idxs, seen, todo = [], [], set(), [claim]
        while todo:
            x = todo.pop()
            if x.get_id() in seen:
                continue
            seen.add(x.get_id())
            if z3.is_quantifier(x) or not z3.is_app(x):
                continue
            k = x.decl().kind()
            if k == z3.Z3_OP_SELECT and x.num_args() == 2 and x.arg(1).sort() == z3.IntSort():
                if not any(x.arg(1).eq(y) for y in refs) and len(refs) < 10:
                    refs.append(x.arg(1))
            if k == z3.Z3_OP_SEQ_NTH and not any(x.arg(1).eq(y) for y in idxs) and len(idxs) < 6:
                idxs.append(x.arg(1))
            todo.extend(x.children())
        out = []
        arrays = [(arr, ty, st.alloc0) for (arr, ty) in self.initial_arrays.values()]
        arrays += list(getattr(st, 'closed_arrays', ()) or ())
        for (arr, ty, a0) in arrays:
            if isinstance(ty, TRef):
                for r in refs:
                    out.append(z3.Implies(z3.And(r >= 0, r < a0), z3.And(z3.Select(arr, r) >= 0, z3.Select(arr, r) < a0)))
            elif isinstance(ty, TSeq) and isinstance(ty.elem, TTuple):
                for pos, it in enumerate(ty.elem.items):
                    if not isinstance(it, TRef):
                        continue
                    for r in refs:
                        sq = z3.Select(arr, r)
                        for i in idxs:
                            e = ty.elem.proj(snth(ty.elem, sq, i), pos)
                            out.append(z3.Implies(z3.And(r >= 0, r < a0, i >= 0, i < z3.Length(sq)), z3.And(e >= 0, e < a0)))
        return tuple(out)

    def field_sort(self, ty):
        if isinstance(ty, TTuple):
            return ty.sort()
        return ty.sort()

    def read_field(self, st, ref, cls, name, node=None):
        dcls, fty = self.classes.field(cls, name)
        if dcls is None:
            raise OutsideSubset('no model for field %s.%s' % (cls, name))
        arr = self.heap_array(st, (dcls, name), fty)
        val = unbox(fty, z3.Select(arr, ref.t))
        self.assume_ref_closed(st, val)
        return val

    def assume_ref_closed(self, st, val):
        """Refs read from the heap denote allocated objects."""
        if isinstance(val.ty, TRef):
            st.fact(z3.And(val.t >= 0, val.t < st.alloc))
            st.fact(self.isinstance_term(st, val, val.ty.cls))
        elif isinstance(val.ty, TOpt) and isinstance(val.ty.inner, TRef):
            inner = val.ty.val(val.t)
            st.fact(z3.Or(val.ty.is_none(val.t), z3.And(inner >= 0, inner < st.alloc)))
            st.fact(z3.Or(val.ty.is_none(val.t), self.isinstance_term(st, SV(val.ty.inner, inner), val.ty.inner.cls)))

    def assume_class(self, st, ref):
        st.assume(self.isinstance_term(st, ref, ref.ty.cls))

    def cls_of(self, ref_term):
        """Dynamic class tag of an object: immutable, hence a global function of the
        reference rather than part of the mutable heap."""
        return strops.ufun('cls_of', z3.IntSort(), z3.IntSort())(ref_term)

    def isinstance_term(self, st, ref, cls):
        subs = self.classes.subclasses(cls)
        concrete = [c for c in subs if not getattr(api.MODELS.get(c), 'abstract', False)]
        if concrete:
            subs = concrete
        tag = self.cls_of(ref.t)
        return z3.Or([tag == self.classes.cid(c) for c in subs])

    def exact_class_term(self, st, ref, cls):
        return self.cls_of(ref.t) == self.classes.cid(cls)

    def write_field(self, st, ref, cls, name, val, node=None):
        dcls, fty = self.classes.field(cls, name)
        if dcls is None:
            raise OutsideSubset('no model for field %s.%s' % (cls, name))
        try:
            v = self.coerce_checked(st, val, fty, node, 'field-' + name)
        except TypeMismatch as e:
            self.oblige(st, False, 'type', 'field-%s' % name, node=node,
                        info={'claim': 'value stored in %s.%s has type %s: %s' % (cls, name, fty, e)})
            v = fresh(fty)
        arr = self.heap_array(st, (dcls, name), fty)
        self.frame_write(st, ref, (dcls, name), node)
        st.heap[(dcls, name)] = z3.Store(arr, ref.t, box(v))
        self.invalidate_places(st, ('field', ref.t, (dcls, name)), ())
        m = api.MODELS.get(dcls)
        if m is not None and name in m.optional:
            flag = m.optional[name]
            farr = self.heap_array(st, (dcls, flag), TBool)
            st.heap[(dcls, flag)] = z3.Store(farr, ref.t, z3.BoolVal(True))
        if st.init_assigned is not None and 'self' in st.env and \
                isinstance(st.env['self'], SV) and z3.eq(st.env['self'].t, ref.t):
            st.init_assigned.add(name)

    def frame_write(self, st, ref, fkey, node):
        """Frame obligation: a written object is in the modifies set or fresh."""
        if self.frame is None or self.spec_depth > 0:
            return
        allowed = [ref.t >= st.alloc0]
        if fkey[0] == 'Ghost' and self.inline_depth == 0 and not any(
                (not isinstance(x[0], str)) and z3.is_int_value(x[0]) and x[0].as_long() == -1 for x in self.frame):
            pass
        for x in self.frame:
            r, fk = x[0], x[1]
            if isinstance(r, str):
                if r == 'ALL' and self.classes.is_subclass(fkey[0], x[2]) or self.classes.is_subclass(x[2], fkey[0]):
                    if fk is None or fk == fkey[1]:
                        allowed.append(z3.BoolVal(True))
                continue
            if fk is None or fk == fkey or fk == fkey[1]:
                allowed.append(ref.t == r)
        self.oblige(st, z3.Or(allowed), 'frame', '%s.%s' % (fkey[0].split('.')[-1], fkey[1]), node=node,
                    carries=self.frame_carries,
                    info={'claim': 'write to %s.%s only on an object in the modifies clause or allocated by this call' % fkey})

    def new_object(self, st, cls, defaults=True, tag=True):
        r = SV(TRef(cls), st.alloc)
        st.alloc = st.alloc + 1
        if tag:
            st.assume(self.cls_of(r.t) == z3.IntVal(self.classes.cid(cls)))
        for q in (self.classes.mro(cls) if defaults else ()):
            m = api.MODELS.get(q)
            if m is None:
                continue
            if '_dict' in m.fields:
                _, fty = self.classes.field(q, '_dict')
                arr = self.heap_array(st, (q, '_dict'), fty)
                st.heap[(q, '_dict')] = z3.Store(arr, r.t, empty_map(fty))
            for f, dv in m.defaults.items():
                _, fty = self.classes.field(q, f)
                arr = self.heap_array(st, (q, f), fty)
                v = self.const_value(ast.literal_eval(dv))
                st.heap[(q, f)] = z3.Store(arr, r.t, box(coerce(v, fty, self.classes)))
        return r

    def coerce(self, st, sv, ty):
        """coerce with allocation of shared containers (Seq -> Ref[list:..])."""
        if isinstance(ty, TRef) and ty.cls.startswith('list:') and isinstance(sv.ty, TSeq):
            r = self.new_object(st, ty.cls)
            ety = self.list_elem(ty.cls)
            self.write_field(st, r, ty.cls, 'items', coerce(sv, TSeq(ety), self.classes))
            return r
        if isinstance(ty, TOpt) and isinstance(ty.inner, TRef) and ty.inner.cls.startswith(('list:', 'dict:')) \
                and isinstance(sv.ty, (TSeq, TMap)):
            return coerce(self.coerce(st, sv, ty.inner), ty, self.classes)
        if isinstance(ty, TRef) and ty.cls.startswith('dict:') and isinstance(sv.ty, TMap):
            r = self.new_object(st, ty.cls)
            k, v = self.dict_kv(ty.cls)
            self.write_field(st, r, ty.cls, 'items', coerce(sv, TMap(k, v), self.classes))
            return r
        if isinstance(sv.ty, TSeq) and sv.t is not None and sv.ty.elem is not TBottom:
            from .values import _LITERALS
            if sv.t.get_id() not in _LITERALS:
                if isinstance(ty, TSeq) and ty != sv.ty:
                    w = self.widen_seq(st, sv, ty)
                    if w is not None:
                        return w
                if isinstance(ty, TUnion) and ty.tag_of(sv.ty) is None:
                    for tg, alt in ty.alts:
                        if isinstance(alt, TSeq):
                            w = self.widen_seq(st, sv, alt)
                            if w is not None:
                                return SV(ty, ty.inject(tg, box(w)))
        return coerce(sv, ty, self.classes)

    def widen_seq(self, st, sv, ty):
        """A sequence value used where a sequence of a WIDER element type is declared (a list of
        converted values stored in a slot whose lists hold tagged items): a new sequence of the same
        length whose elements are the injections of the original ones."""
        k = z3.Int(self.fresh_sym('wk'))
        try:
            el = coerce(unbox(sv.ty.elem, snth(sv.ty.elem, sv.t, k)), ty.elem, self.classes)
        except TypeMismatch:
            return None
        w = fresh(ty, 'widened')
        st.assume(z3.Length(w.t) == z3.Length(sv.t))
        st.fact(z3.ForAll([k], z3.Implies(z3.And(k >= 0, k < z3.Length(sv.t)),
                                           snth(ty.elem, w.t, k) == box(el))))
        return w

    def coerce_checked(self, st, sv, ty, node, what):
        """coerce; an Optional used where a plain value is required becomes a
        safety obligation (it would be a TypeError / AttributeError downstream)."""
        try:
            return self.coerce(st, sv, ty)
        except TypeMismatch:
            if isinstance(sv.ty, TTuple) and isinstance(ty, TTuple) and len(sv.ty.items) == len(ty.items):
                parts = [self.coerce_checked(st, x, t, node, what) for x, t in zip(sv.t, ty.items)]
                return SV(ty, tuple(parts))
            from .values import _LITERALS, seq_literal as _seq_literal
            if isinstance(ty, TSeq) and isinstance(sv.ty, TSeq) and sv.t is not None and sv.t.get_id() in _LITERALS:
                # a list display whose items need checked coercion (e.g. an Optional item that must not be None)
                items = [self.coerce_checked(st, it, ty.elem, node, what) for it in _LITERALS[sv.t.get_id()][1]]
                return coerce(_seq_literal(items, self.classes), ty, self.classes)
            if isinstance(ty, TOpt) and not isinstance(sv.ty, TOpt) and sv.ty != TNone:
                inner = self.coerce_checked(st, sv, ty.inner, node, what)
                return coerce(inner, ty, self.classes)
            if isinstance(sv.ty, TOpt) and not isinstance(ty, TOpt):
                inner = unbox(sv.ty.inner, sv.ty.val(sv.t))
                r = self.coerce_checked(st, inner, ty, node, what)
                self.oblige(st, z3.Not(sv.ty.is_none(sv.t)), 'safety', 'None-' + what, node=node,
                            info={'claim': '%s is not None where a %s is required' % (what, ty)})
                return r
            if isinstance(sv.ty, TUnion) and not isinstance(ty, TUnion):
                # a tagged value where one particular kind is required: it must BE of that kind
                cands = []
                for tag, alt in sv.ty.alts:
                    if alt == TNone:
                        continue
                    try:
                        cands.append((tag, coerce(unbox(alt, sv.ty.get(tag, sv.t)), ty, self.classes)))
                    except TypeMismatch:
                        continue
                if len(cands) == 1:
                    tag, r = cands[0]
                    self.oblige(st, sv.ty.is_tag(tag, sv.t), 'safety', 'kind-of-' + what, node=node,
                                info={'claim': '%s has the kind %s that a %s requires (AttributeError / TypeError)' % (what, tag, ty)})
                    return r
            if isinstance(sv.ty, TRef) and isinstance(ty, TRef) and self.classes.is_subclass(ty.cls, sv.ty.cls):
                # downcast: the object must really be an instance of the narrower class
                self.oblige(st, self.isinstance_term(st, sv, ty.cls), 'safety', 'isinstance-' + what, node=node,
                            info={'claim': '%s is an instance of %s' % (what, ty.cls)})
                return SV(ty, sv.t)
            raise

    def list_elem(self, cls):
        _, fty = self.classes.field(cls, 'items')
        return fty.elem

    def dict_kv(self, cls):
        _, fty = self.classes.field(cls, 'items')
        return fty.k, fty.v

    # ------------------------------------------------------------------
    # places
    # ------------------------------------------------------------------
    def place_root_value(self, st, place):
        kind = place.root[0]
        if kind == 'field':
            _, ref_t, fkey = place.root
            _, fty = self.classes.field(fkey[0], fkey[1])
            arr = self.heap_array(st, fkey, fty)
            return unbox(fty, z3.Select(arr, ref_t))
        if kind == 'local':
            v = st.env[place.root[1]]
            if isinstance(v, Place):
                return self.read_place(st, v)
            return v
        raise OutsideSubset('place root ' + kind)

    def read_place(self, st, place):
        if place.stale is not None:
            return place.stale
        v = self.place_root_value(st, place)
        for step in place.path:
            v = self.step_read(st, v, step)
        return v

    def step_read(self, st, v, step):
        k = step[0]
        if k == 'key':
            return self.map_get(v, step[1])
        if k == 'idx':
            return unbox(v.ty.elem, strops.seq_nth(v.t, step[1].t, v.ty.elem))
        if k == 'alt':
            return unbox(v.ty.alt(step[1]), v.ty.get(step[1], v.t))
        if k == 'opt':
            return unbox(v.ty.inner, v.ty.val(v.t))
        raise OutsideSubset('place step ' + k)

    def step_write(self, st, container, step, newv):
        k = step[0]
        if k == 'key':
            return self.map_set(container, step[1], newv)
        if k == 'idx':
            i = strops.index_norm(step[1].t, z3.Length(container.t))
            e = box(coerce(newv, container.ty.elem, self.classes))
            n = z3.Length(container.t)
            t = z3.Concat(z3.SubSeq(container.t, 0, i), sunit(container.ty.elem, e),
                          z3.SubSeq(container.t, i + 1, n - i - 1))
            # element-wise view of the same value (lemmas of sequences; the solvers do not find them)
            inrange = z3.And(i >= 0, i < n)
            st.fact(z3.Implies(inrange, z3.Length(t) == n))
            st.fact(z3.Implies(inrange, t[i] == wrap(container.ty.elem, e)))
            k = z3.Int('sw!k')
            st.assume(z3.ForAll([k], z3.Implies(z3.And(inrange, k >= 0, k < n, k != i), t[k] == container.t[k])))
            return SV(container.ty, t)
        if k == 'alt':
            alt = container.ty.alt(step[1])
            return SV(container.ty, container.ty.inject(step[1], box(coerce(newv, alt, self.classes))))
        if k == 'opt':
            return SV(container.ty, container.ty.some(box(coerce(newv, container.ty.inner, self.classes))))
        raise OutsideSubset('place step ' + k)

    def write_place(self, st, place, newv, node=None):
        if place.stale is not None:
            raise OutsideSubset('mutation through a stale alias')
        root = self.place_root_value(st, place)
        # rebuild bottom-up
        vals = [root]
        for step in place.path:
            vals.append(self.step_read(st, vals[-1], step))
        cur = newv
        for step, cont in zip(reversed(place.path), reversed(vals[:-1])):
            cur = self.step_write(st, cont, step, cur)
        kind = place.root[0]
        if kind == 'field':
            _, ref_t, fkey = place.root
            _, fty = self.classes.field(fkey[0], fkey[1])
            cur = self.coerce(st, cur, fty)
            arr = self.heap_array(st, fkey, fty)
            self.frame_write(st, SV(TRef(fkey[0]), ref_t), fkey, node)
            st.heap[fkey] = z3.Store(arr, ref_t, box(cur))
            self.invalidate_places(st, place.root, place.path)
        else:
            name = place.root[1]
            tgt = st.env[name]
            if isinstance(tgt, Place):
                self.write_place(st, tgt, cur, node)
            else:
                if not place.path:
                    st.env[name] = cur
                else:
                    st.env[name] = SV(tgt.ty, cur.t) if cur.ty == tgt.ty else cur

    def invalidate_places(self, st, root, path):
        """A location was overwritten: aliases of other fields of the same
        kind rooted at syntactically different refs are outside the subset."""
        for name, v in list(st.env.items()):
            if isinstance(v, Place) and v.root[0] == 'field' and root[0] == 'field' \
                    and v.root[2] == root[2] and not z3.eq(v.root[1], root[1]):
                # same field of possibly the same object through another name
                s = z3.Solver()
                s.set('timeout', 500)
                s.add(*st.pc)
                s.add(v.root[1] == root[1])
                if s.check() != z3.unsat:
                    raise OutsideSubset('possible aliasing of %s through two references' % (root[2],))

    def dict_place(self, v):
        """For an object of a class that derives from dict: the place of the Map field standing for
        the mapping itself (model option dict_field), else None."""
        if isinstance(v, SV) and isinstance(v.ty, TRef):
            for q in self.classes.mro(v.ty.cls):
                m = api.MODELS.get(q)
                if m is not None and getattr(m, 'dict_field', None):
                    dcls, _ = self.classes.field(v.ty.cls, m.dict_field)
                    return Place(('field', v.t, (dcls, m.dict_field)))
        return None

    def is_container_type(self, ty):
        if isinstance(ty, (TSeq, TMap)):
            return True
        if isinstance(ty, TOpt):
            return self.is_container_type(ty.inner)
        if isinstance(ty, TUnion):
            return any(self.is_container_type(t) for _, t in ty.alts)
        return False

    # ------------------------------------------------------------------
    # maps
    # ------------------------------------------------------------------
    def map_key(self, st, m, k, node, what='dict key'):
        """Key usable with map m: an Optional key where the map has plain keys must not be None
        (a None key would simply be a different key in Python; the models here have no such keys)."""
        if isinstance(k.ty, TOpt) and not isinstance(m.ty.k, TOpt) and m.ty.k is not TBottom:
            self.oblige(st, z3.Not(k.ty.is_none(k.t)), 'safety', 'None-key', node=node,
                        info={'claim': '%s is not None' % what})
            return unbox(k.ty.inner, k.ty.val(k.t))
        return k

    def map_has(self, m, k, st=None):
        if isinstance(k.ty, TOpt) and not isinstance(m.ty.k, TOpt) and m.ty.k is not TBottom:
            inner = unbox(k.ty.inner, k.ty.val(k.t))
            return z3.And(z3.Not(k.ty.is_none(k.t)), self.map_has(m, inner, st))
        if k.ty == TNone and not isinstance(m.ty.k, TOpt):
            return z3.BoolVal(False)
        kk = coerce(k, m.ty.k, self.classes)
        keys = m.ty.keys(m.t)
        u = sunit(m.ty.k, box(kk))
        has = z3.Contains(keys, u)
        st = st or self.cur_state
        if st is not None:
            # membership <-> some index holds the key (Skolemised with IndexOf): the sequence
            # solvers do not connect `contains` with `nth` on their own
            j = z3.IndexOf(keys, u, 0)
            st.fact(has == (j >= 0))
            st.fact(z3.Implies(j >= 0, z3.And(j < z3.Length(keys), snth(m.ty.k, keys, j) == box(kk))))
        return has

    def map_get(self, m, k):
        kk = coerce(k, m.ty.k, self.classes)
        return unbox(m.ty.v, z3.Select(m.ty.vals(m.t), box(kk)))

    def map_set(self, m, k, v, st=None):
        if m.ty.k is TBottom:
            m = SV(TMap(k.ty, v.ty), empty_map(TMap(k.ty, v.ty)))
        kk = box(coerce(k, m.ty.k, self.classes))
        vv = box(self.coerce(st, v, m.ty.v) if st is not None else coerce(v, m.ty.v, self.classes))
        keys = m.ty.keys(m.t)
        nkeys = z3.If(z3.Contains(keys, sunit(m.ty.k, kk)), keys, z3.Concat(keys, sunit(m.ty.k, kk)))
        return SV(m.ty, m.ty.mk(nkeys, z3.Store(m.ty.vals(m.t), kk, vv)))

    # ------------------------------------------------------------------
    # truthiness
    # ------------------------------------------------------------------
    def truthy(self, st, v):
        if isinstance(v, Entity):
            return z3.BoolVal(True)
        ty = v.ty
        if ty == TBool:
            return v.t
        if ty == TInt:
            return v.t != 0
        if ty == TStr:
            return z3.Length(v.t) > 0
        if ty == TNone:
            return z3.BoolVal(False)
        if isinstance(ty, TOpt):
            inner = unbox(ty.inner, ty.val(v.t))
            return z3.And(z3.Not(ty.is_none(v.t)), self.truthy(st, inner))
        if isinstance(ty, TSeq):
            if ty.elem is TBottom:
                return z3.BoolVal(False)
            return z3.Length(v.t) > 0
        if isinstance(ty, TMap):
            if ty.k is TBottom:
                return z3.BoolVal(False)
            return z3.Length(ty.keys(v.t)) > 0
        if isinstance(ty, TTuple):
            return z3.BoolVal(len(ty.items) > 0)
        if isinstance(ty, TRef):
            if ty.cls.startswith('list:'):
                items = self.read_field(st, v, ty.cls, 'items')
                return z3.Length(items.t) > 0
            if ty.cls.startswith('dict:'):
                items = self.read_field(st, v, ty.cls, 'items')
                return z3.Length(items.ty.keys(items.t)) > 0
            dp = self.dict_place(v)
            if dp is not None:
                items = self.read_place(st, dp)
                return z3.Length(items.ty.keys(items.t)) > 0
            c = self.classes.contract_for(ty.cls, '__len__')
            dc, node = self.classes.find_method(ty.cls, '__len__')
            if c is not None or node is not None:
                raise OutsideSubset('truthiness of object with __len__')
            return z3.BoolVal(True)
        if isinstance(ty, TUnion):
            parts = []
            for tag, alt in ty.alts:
                inner = NONE if alt == TNone else unbox(alt, ty.get(tag, v.t))
                parts.append(z3.And(ty.is_tag(tag, v.t), self.truthy(st, inner)))
            return z3.Or(parts)
        if isinstance(ty, (TOpaque, TFun)):
            return z3.BoolVal(True)
        raise OutsideSubset('truthiness of ' + str(ty))

    # ------------------------------------------------------------------
    # expression evaluation: returns list of (state, value)
    # ------------------------------------------------------------------
    def eval(self, st, e):
        self.cur_state = st
        m = getattr(self, 'eval_' + type(e).__name__, None)
        if m is None:
            raise OutsideSubset('expression ' + type(e).__name__)
        return m(st, e)

    def eval_many(self, st, exprs):
        """Evaluate expressions left to right; list of (state, [values])."""
        outs = [(st, [])]
        for e in exprs:
            nxt = []
            for s, vals in outs:
                if not normal(s):
                    nxt.append((s, vals))
                    continue
                for s2, v in self.eval(s, e):
                    nxt.append((s2, vals + [v]))
            outs = nxt
        # non-normal outcomes carry a full-length (padded) value list so callers can unpack
        return [(s, vals if normal(s) else vals + [None] * (len(exprs) - len(vals))) for s, vals in outs]

    def value(self, st, v):
        """Dereference places."""
        if isinstance(v, Place):
            return self.read_place(st, v)
        return v

    def eval_Constant(self, st, e):
        v = e.value
        if v is None:
            return [(st, NONE)]
        if isinstance(v, bool):
            return [(st, mk_bool(v))]
        if isinstance(v, int):
            return [(st, mk_int(v))]
        if isinstance(v, str):
            return [(st, mk_str(v))]
        raise OutsideSubset('constant ' + repr(v))

    def eval_Name(self, st, e):
        name = e.id
        if name in st.env:
            return [(st, self.value(st, st.env[name]))]
        return [(st, self.resolve_global(st, name))]

    def resolve_global(self, st, name):
        if name in self.extra_names:
            return self.extra_names[name]
        if name in api.GLOBAL_ALIASES:
            q = api.GLOBAL_ALIASES[name]
            ty = parse_type(api.GLOBAL_CONSTS[q])
            return SV(ty, z3.Const('global_' + q.replace('.', '_'), ty.sort()))
        if name == 'GHOST' and 'Ghost' in api.MODELS:
            # the one ghost object: global specification state (counters of open files, ...)
            return SV(TRef('Ghost'), z3.IntVal(-1))
        # specification functions and primitives
        if self.spec_env is not None or self.spec_depth > 0 or self.in_contract:
            ent = self.spec_lookup(name)
            if ent is not None:
                return ent
        mod = self.cur_module
        if mod is not None:
            if name in mod.functions:
                return Entity('func', mod.name + '.' + name)
            if name in mod.classes:
                return Entity('class', mod.name + '.' + name)
            if name in mod.imports:
                target = mod.imports[name]
                return self.entity_for_dotted(mod, name)
            if name in mod.globals:
                return self.module_constant(mod, name)
        ent = self.spec_lookup(name)
        if ent is not None:
            return ent
        if name in ('len', 'isinstance', 'str', 'int', 'repr', 'getattr', 'hasattr', 'list',
                    'tuple', 'sorted', 'range', 'iter', 'type', 'bool', 'float', 'dict',
                    'min', 'max', 'abs', 'id', 'reduce', 'all', 'any', 'set', 'enumerate', 'zip', 'bytes', 'print'):
            return Entity('builtin', name)
        c = self.classes.canon(name)
        if c.startswith('builtin:'):
            return Entity('class', c)
        if name in ('True', 'False'):
            return mk_bool(name == 'True')
        raise OutsideSubset('unknown name ' + name)

    def entity_for_dotted(self, mod, dotted_name):
        r = self.src.resolve_name(mod, dotted_name)
        return self.entity_for_resolved(r)

    def entity_for_resolved(self, r):
        if r.startswith('ext:'):
            return Entity('ext', r[4:])
        if r.startswith('builtin:'):
            return Entity('class', r) if r[8:] in __import__('pyvc.classes', fromlist=['x']).BUILTIN_EXC else Entity('builtin', r[8:])
        # package-internal: module, class or function?
        try:
            m, rest = self.src.split_qual(r)
        except KeyError:
            return Entity('ext', r)
        if not rest:
            return Entity('module', m.name)
        if len(rest) == 1:
            if rest[0] in m.classes:
                return Entity('class', m.name + '.' + rest[0])
            if rest[0] in m.functions:
                return Entity('func', m.name + '.' + rest[0])
            if rest[0] in m.globals:
                return self.module_constant(m, rest[0])
            if rest[0] in m.imports:
                return self.entity_for_dotted(m, rest[0])
        raise OutsideSubset('cannot resolve ' + r)

    def module_constant(self, mod, name):
        """Module-level constants: literals and tuples of literals; other
        values (compiled regexes, instances) are entities resolved by contracts."""
        node = mod.globals[name]
        q = mod.name + '.' + name
        if q == 'info.Unbounded':
            ty = parse_type('MaxOcc')
            return SV(ty, ty.inject('unb'))      # the +infinity object of occurrence bounds
        if q in api.GLOBAL_CONSTS:
            ty = parse_type(api.GLOBAL_CONSTS[q])
            return SV(ty, z3.Const('global_' + q.replace('.', '_'), ty.sort()))
        try:
            v = ast.literal_eval(node)
        except Exception:
            return Entity('global', q)
        return self.const_value(v)

    def const_value(self, v):
        if v is None:
            return NONE
        if isinstance(v, bool):
            return mk_bool(v)
        if isinstance(v, int):
            return mk_int(v)
        if isinstance(v, str):
            return mk_str(v)
        if isinstance(v, tuple):
            items = [self.const_value(x) for x in v]
            return SV(TTuple([i.ty for i in items]), tuple(items))
        if isinstance(v, dict) and v and all(isinstance(k, str) for k in v) and \
                (all(isinstance(x, int) and not isinstance(x, bool) for x in v.values()) or all(isinstance(x, str) for x in v.values())):
            # a literal table str -> int / str -> str (insertion order kept)
            vty = TInt if isinstance(next(iter(v.values())), int) else TStr
            m = SV(TMap(TStr, vty), empty_map(TMap(TStr, vty)))
            keys_t = None
            vals_t = m.ty.vals(m.t)
            for k, x in v.items():
                u = sunit(TStr, z3.StringVal(k))
                keys_t = u if keys_t is None else z3.Concat(keys_t, u)
                vals_t = z3.Store(vals_t, z3.StringVal(k), z3.IntVal(x) if vty == TInt else z3.StringVal(x))
            return SV(m.ty, m.ty.mk(keys_t, vals_t))
        raise OutsideSubset('module constant of type ' + type(v).__name__)

    def eval_Tuple(self, st, e):
        out = []
        for s, vals in self.eval_many(st, e.elts):
            if not normal(s):
                out.append((s, None))
                continue
            vals = [self.need_value(v) for v in vals]
            out.append((s, SV(TTuple([v.ty for v in vals]), tuple(vals))))
        return out

    def need_value(self, v):
        if isinstance(v, Entity) and v.kind == 'ext' and v.data in api.EXT_VALUES:
            ty, lit = api.EXT_VALUES[v.data]
            ty = parse_type(ty)
            if lit is not None:
                return self.const_value(lit)
            return SV(ty, z3.Const('ext_' + v.data.replace('.', '_'), ty.sort()))
        if isinstance(v, Entity) and v.kind == 'localfunc':
            # a nested function used as a value (stored, passed on): an opaque callable
            return fresh(TOpaque('PyVal'), 'closure')
        if isinstance(v, Entity):
            if v.kind == 'global':
                raise OutsideSubset('module global %s used as a value' % v.data)
            raise OutsideSubset('entity %s used as a value' % (v,))
        return v

    def eval_List(self, st, e):
        out = []
        for s, vals in self.eval_many(st, e.elts):
            if not normal(s):
                out.append((s, None))
                continue
            out.append((s, seq_literal([self.need_value(v) for v in vals], self.classes)))
        return out

    def eval_Dict(self, st, e):
        if e.keys:
            raise OutsideSubset('non-empty dict literal')
        return [(st, SV(TMap(TBottom, TBottom), None))]

    def eval_JoinedStr(self, st, e):
        # f-strings only ever build messages here: opaque text
        out = []
        exprs = [v.value for v in e.values if isinstance(v, ast.FormattedValue)]
        for s, vals in self.eval_many(st, exprs):
            out.append((s, fresh(TStr, 'fmt') if normal(s) else None))
        return out

    def eval_BoolOp(self, st, e):
        # short-circuit with forks; the value is the deciding operand (Python semantics)
        is_and = isinstance(e.op, ast.And)
        results = []
        pending = [(st, None, 0)]
        while pending:
            s, _, i = pending.pop()
            for s1, v in self.eval(s, e.values[i]):
                if not normal(s1):
                    results.append((s1, None))
                    continue
                if i == len(e.values) - 1:
                    results.append((s1, v))
                    continue
                t0 = self.truthy(s1, v)
                t = z3.simplify(t0)
                decide = z3.Not(t) if is_and else t
                decide0 = z3.Not(t0) if is_and else t0
                if z3.is_true(decide):
                    results.append((s1, v))
                elif z3.is_false(decide):
                    pending.append((s1, None, i + 1))
                else:
                    a = s1.copy()
                    a.assume(decide0)
                    b = s1
                    b.assume(z3.Not(decide0))
                    if self.feasible(a):
                        results.append((a, self.narrow_after_truth(a, v, not is_and)))
                    if self.feasible(b):
                        pending.append((b, None, i + 1))
        # merge values of identical type where states are equal is not attempted
        return results

    def narrow_after_truth(self, st, v, truth):
        return v

    def eval_UnaryOp(self, st, e):
        out = []
        for s, v in self.eval(st, e.operand):
            if not normal(s):
                out.append((s, None))
                continue
            if isinstance(e.op, ast.Not):
                out.append((s, SV(TBool, z3.Not(self.truthy(s, v)))))
            elif isinstance(e.op, ast.USub) and v.ty == TInt:
                if z3.is_int_value(v.t):
                    out.append((s, SV(TInt, z3.IntVal(-v.t.as_long()))))
                else:
                    out.append((s, SV(TInt, -v.t)))
            else:
                raise OutsideSubset('unary op')
        return out

    def eval_IfExp(self, st, e):
        out = []
        for s, c in self.eval(st, e.test):
            if not normal(s):
                out.append((s, None))
                continue
            t = self.truthy(s, c)
            for truth, cond in ((True, t), (False, z3.Not(t))):
                if z3.is_false(z3.simplify(cond)):
                    continue
                s2 = s.copy()
                s2.assume(cond)
                if not self.feasible(s2):
                    continue
                out.extend(self.eval(s2, e.body if truth else e.orelse))
        return out

    def check_percent_format(self, st, e, r):
        """`"literal" % args`: the number (and, for %d-like conversions, the kind) of arguments must
        fit the conversion specifiers of the literal, else TypeError / ValueError at run time."""
        import re as _re
        if not (isinstance(e.left, ast.Constant) and isinstance(e.left.value, str)):
            # the format is computed (e.g. a message that may contain user text with '%'): nothing
            # guarantees that its conversions fit the arguments
            if not (self.catches(st, 'builtin:TypeError') and self.catches(st, 'builtin:ValueError')):
                self.oblige(st, False, 'safety', 'percent-format-computed', node=e,
                            info={'claim': 'a computed string is used as a %-format: its conversions cannot be shown '
                                           'to fit the arguments (TypeError / ValueError)'})
            return
        fmt = e.left.value
        specs = _re.findall(r'%(\([^)]*\))?[-#0 +]*(\*|\d+)?(?:\.(\*|\d+))?[hlL]?(.)', fmt)
        convs = [c for (key, w, p, c) in specs if c != '%']
        if any(key for (key, w, p, c) in specs if c != '%'):
            return        # mapping form: not checked
        bad = [c for c in convs if c not in 'diouxXeEfFgGcrsa']
        nargs = len(r.t) if isinstance(r.ty, TTuple) else 1
        stars = sum((w == '*') + (p == '*') for (key, w, p, c) in specs if c != '%')
        ok = not bad and nargs == len(convs) + stars
        if ok and not stars:
            args = list(r.t) if isinstance(r.ty, TTuple) else [r]
            for c, a in zip(convs, args):
                if c in 'diouxXeEfFgG' and isinstance(a, SV) and (a.ty == TStr or a.ty == TNone or isinstance(a.ty, (TSeq, TMap))):
                    ok = False
        if not ok:
            self.oblige(st, False, 'safety', 'percent-format', node=e,
                        info={'claim': 'arguments of %%-formatting fit the conversions of %r (TypeError / ValueError)' % fmt})

    def eval_BinOp(self, st, e):
        out = []
        for s, (l, r) in self.eval_many(st, [e.left, e.right]):
            if not normal(s):
                out.append((s, None))
                continue
            if isinstance(e.op, ast.Mod) and isinstance(l, SV) and l.ty == TStr and isinstance(r, SV):
                self.check_percent_format(s, e, r)
            out.append((s, self.binop(s, e.op, self.need_value(l), self.need_value(r), e)))
        return out

    def binop(self, st, op, l, r, node):
        if isinstance(op, ast.Mod) and l.ty == TStr:
            return fresh(TStr, 'fmt')        # %-formatting builds message text only
        if isinstance(op, ast.Add):
            if l.ty == TStr and r.ty == TStr:
                return SV(TStr, z3.Concat(l.t, r.t))
            if l.ty == TInt and r.ty == TInt:
                return SV(TInt, l.t + r.t)
            if isinstance(l.ty, TSeq) and isinstance(r.ty, TSeq):
                if l.ty.elem is TBottom:
                    return r
                if r.ty.elem is TBottom:
                    return l
                if l.ty == r.ty:
                    ty = l.ty
                else:
                    j = join(l.ty.elem, r.ty.elem)
                    if j is not None:
                        ty = TSeq(j)
                    else:
                        # a list display of narrower items next to a list of tagged items
                        try:
                            return SV(l.ty, z3.Concat(l.t, coerce(r, l.ty, self.classes).t))
                        except TypeMismatch:
                            return SV(r.ty, z3.Concat(coerce(l, r.ty, self.classes).t, r.t))
                return SV(ty, z3.Concat(coerce(l, ty).t, coerce(r, ty).t))
            if isinstance(l.ty, TTuple) and isinstance(r.ty, TTuple):
                return SV(TTuple(l.ty.items + r.ty.items), l.t + r.t)
            if isinstance(l.ty, TSeq) and isinstance(r.ty, TTuple):
                r2 = seq_literal(list(r.t), self.classes)
                return self.binop(st, op, l, r2, node)
            if (l.ty == TStr) != (r.ty == TStr):
                self.oblige(st, False, 'type', 'str-concat', node=node,
                            info={'claim': 'operands of + are both str (%s + %s)' % (l.ty, r.ty)})
                return fresh(TStr)
        if l.ty == TInt and r.ty == TInt:
            if isinstance(op, ast.Sub):
                return SV(TInt, l.t - r.t)
            if isinstance(op, ast.Mult):
                return SV(TInt, l.t * r.t)
        raise OutsideSubset('binary op %s on %s, %s' % (type(op).__name__, l.ty, r.ty))

    def eval_Compare(self, st, e):
        out = []
        operands = [e.left] + list(e.comparators)
        for s, vals in self.eval_many(st, operands):
            if not normal(s):
                out.append((s, None))
                continue
            terms = []
            for i, op in enumerate(e.ops):
                terms.append(self.compare(s, op, vals[i], vals[i + 1], e))
            out.append((s, SV(TBool, z3.And(terms) if len(terms) > 1 else terms[0])))
        return out

    def compare(self, st, op, l, r, node):
        if isinstance(op, (ast.Is, ast.IsNot)):
            t = self.is_identical(st, l, r)
            return t if isinstance(op, ast.Is) else z3.Not(t)
        if isinstance(l, Entity) or isinstance(r, Entity):
            raise OutsideSubset('comparison with entity')
        if isinstance(op, (ast.Eq, ast.NotEq)):
            t = self.py_eq(st, l, r)
            return t if isinstance(op, ast.Eq) else z3.Not(t)
        if isinstance(op, (ast.In, ast.NotIn)):
            t = self.contains(st, r, l, node)
            return t if isinstance(op, ast.In) else z3.Not(t)
        # ordering
        lt, rt = l, r
        if isinstance(l.ty, TOpt) or isinstance(r.ty, TOpt) or l.ty == TNone or r.ty == TNone:
            # comparing None raises TypeError
            if isinstance(l.ty, TOpt):
                self.oblige(st, z3.Not(l.ty.is_none(l.t)), 'safety', 'compare-None', node=node,
                            info={'claim': 'ordering comparison operand is not None'})
                lt = unbox(l.ty.inner, l.ty.val(l.t))
            if isinstance(r.ty, TOpt):
                self.oblige(st, z3.Not(r.ty.is_none(r.t)), 'safety', 'compare-None', node=node,
                            info={'claim': 'ordering comparison operand is not None'})
                rt = unbox(r.ty.inner, r.ty.val(r.t))
            if lt.ty == TNone or rt.ty == TNone:
                self.oblige(st, False, 'safety', 'compare-None', node=node,
                            info={'claim': 'ordering comparison operand is not None'})
                return z3.BoolVal(False)
        if lt.ty == TBool:
            lt = coerce(lt, TInt)
        if rt.ty == TBool:
            rt = coerce(rt, TInt)
        h = self.custom_compare(st, op, lt, rt, node)
        if h is not None:
            return h
        if lt.ty == TInt and rt.ty == TInt:
            return {ast.Lt: lambda: lt.t < rt.t, ast.LtE: lambda: lt.t <= rt.t,
                    ast.Gt: lambda: lt.t > rt.t, ast.GtE: lambda: lt.t >= rt.t}[type(op)]()
        if lt.ty != rt.ty:
            self.oblige(st, False, 'type', 'compare', node=node,
                        info={'claim': 'ordering comparison between like types (%s vs %s)' % (lt.ty, rt.ty)})
            return z3.Bool(strops.ufun.__name__ + str(id(node)))
        h = self.custom_compare(st, op, lt, rt, node)
        if h is not None:
            return h
        raise OutsideSubset('ordering on ' + str(lt.ty))

    def custom_compare(self, st, op, l, r, node):
        """maxOccurs: an int or info.Unbounded (= +infinity; UnboundedThing.__gt__/__eq__ with
        functools.total_ordering)."""
        def is_mo(v):
            return isinstance(v.ty, TUnion) and v.ty.name == 'MaxOcc'
        if not (is_mo(l) or is_mo(r)):
            return None

        def parts(v):
            if is_mo(v):
                return v.ty.is_tag('unb', v.t), v.ty.get('fin', v.t)
            if v.ty == TInt:
                return z3.BoolVal(False), v.t
            return None
        pl, pr = parts(l), parts(r)
        if pl is None or pr is None:
            return None
        (li, lv), (ri, rv) = pl, pr
        lt_ = z3.And(z3.Not(li), z3.Or(ri, lv < rv))
        gt_ = z3.And(z3.Not(ri), z3.Or(li, lv > rv))
        eq_ = z3.Or(z3.And(li, ri), z3.And(z3.Not(li), z3.Not(ri), lv == rv))
        return {ast.Lt: lt_, ast.Gt: gt_, ast.LtE: z3.Or(lt_, eq_), ast.GtE: z3.Or(gt_, eq_)}[type(op)]

    def is_identical(self, st, l, r):
        if isinstance(l, Entity) or isinstance(r, Entity):
            if isinstance(l, Entity) and isinstance(r, Entity):
                return z3.BoolVal(l.kind == r.kind and l.data == r.data)
            return z3.BoolVal(False)
        if r.ty == TNone:
            return self.is_none(l)
        if l.ty == TNone:
            return self.is_none(r)
        if isinstance(l.ty, TRef) and isinstance(r.ty, TRef):
            return l.t == r.t
        if l.ty == TBool and r.ty == TBool:
            return l.t == r.t
        if l.ty == TStr and r.ty == TStr and (self.spec_depth > 0 or self.in_contract):
            return l.t == r.t
        if isinstance(l.ty, TOpaque) and l.ty == r.ty:
            return l.t == r.t
        if isinstance(l.ty, TOpt) and l.ty == r.ty and isinstance(l.ty.inner, (TOpaque, TRef)):
            return l.t == r.t          # None is None; otherwise identity of the object / opaque value          # arbitrary objects: identity is equality of the opaque value
        raise OutsideSubset('identity test on %s / %s' % (l.ty, r.ty))

    def is_none(self, v):
        if v.ty == TNone:
            return z3.BoolVal(True)
        if isinstance(v.ty, TOpt):
            return v.ty.is_none(v.t)
        if isinstance(v.ty, TUnion):
            if v.ty.name == 'MaxOcc':
                return z3.BoolVal(False)       # info.Unbounded is an object, not None
            tag = v.ty.tag_of(TNone)
            return v.ty.is_tag(tag, v.t) if tag else z3.BoolVal(False)
        return z3.BoolVal(False)

    def py_eq(self, st, l, r):
        for a, b in ((l, r), (r, l)):
            if isinstance(a.ty, TUnion) and a.ty.name == 'MaxOcc' and b.ty == TInt:
                return z3.And(a.ty.is_tag('fin', a.t), a.ty.get('fin', a.t) == b.t)
        if isinstance(l.ty, TRef) and isinstance(r.ty, TRef):
            c = self.classes.contract_for(l.ty.cls, '__eq__')
            if c is None:
                return l.t == r.t
            raise OutsideSubset('== on objects with __eq__')
        return eq_term(l, r, self.classes)

    def contains(self, st, container, item, node):
        if isinstance(container.ty, TUnion):
            container = self.narrow_union(st, container, node, 'in',
                                          lambda t: isinstance(t, (TSeq, TMap)) or t == TStr)
        ty = container.ty
        if ty == TStr:
            if item.ty != TStr:
                self.oblige(st, False, 'type', 'in-str', node=node,
                            info={'claim': 'left operand of `in <str>` is a str'})
                return z3.BoolVal(False)
            return z3.Contains(container.t, item.t)
        if isinstance(ty, TTuple):
            return z3.Or([self.py_eq(st, item, x) for x in container.t]) if container.t else z3.BoolVal(False)
        if isinstance(ty, TSeq):
            if ty.elem is TBottom:
                return z3.BoolVal(False)
            it = coerce(item, ty.elem, self.classes)
            return z3.Contains(container.t, sunit(ty.elem, box(it)))
        if isinstance(ty, TMap):
            if ty.k is TBottom:
                return z3.BoolVal(False)
            return self.map_has(container, item)
        if isinstance(ty, TRef) and ty.cls.startswith('dict:'):
            items = self.read_field(st, container, ty.cls, 'items')
            return self.map_has(items, item)
        if isinstance(ty, TRef) and ty.cls.startswith('list:'):
            items = self.read_field(st, container, ty.cls, 'items')
            return self.contains(st, items, item, node)
        if isinstance(ty, TRef) and self.dict_place(container) is not None:
            return self.map_has(self.read_place(st, self.dict_place(container)), item)
        if isinstance(ty, TRef):
            res = self.call_method(st, container, '__contains__', [item], {}, node)
            if len(res) == 1 and normal(res[0][0]):
                return self.truthy(st, res[0][1])
        raise OutsideSubset('`in` on ' + str(ty))

    # ------------------------------------------------------------------
    # attribute / subscript
    # ------------------------------------------------------------------
    def eval_Attribute(self, st, e):
        out = []
        for s, base in self.eval(st, e.value):
            if not normal(s):
                out.append((s, None))
                continue
            out.append((s, self.getattr_value(s, base, e.attr, e)))
        return out

    def unwrap_opt(self, st, v, node, what):
        if isinstance(v.ty, TOpt):
            self.oblige(st, z3.Not(v.ty.is_none(v.t)), 'safety', 'None-' + what, node=node,
                        info={'claim': 'receiver of %s is not None' % what})
            return unbox(v.ty.inner, v.ty.val(v.t))
        if v.ty == TNone:
            self.oblige(st, False, 'safety', 'None-' + what, node=node,
                        info={'claim': 'receiver of %s is not None' % what})
            raise PathEnds('attribute of None')
        return v

    def getattr_value(self, st, base, attr, node):
        if attr == '__dict__' and isinstance(base, SV) and isinstance(base.ty, TRef) \
                and self.classes.field(base.ty.cls, '_dict')[0] is not None:
            attr = '_dict'
        if isinstance(base, Entity):
            return self.entity_attr(st, base, attr, node)
        base = self.unwrap_opt(st, base, node, '.' + attr)
        ty = base.ty
        if isinstance(ty, TRef):
            if ty.cls.startswith('rxmatch:') and attr in ('group', 'end', 'start') and not self.in_contract:
                return Entity('method', attr, base)
            dcls, fty = self.classes.field(ty.cls, attr)
            if dcls is not None:
                m = api.MODELS.get(dcls)
                if m is not None and attr in m.optional:
                    flag = self.read_field(st, base, ty.cls, m.optional[attr], node)
                    self.oblige(st, flag.t, 'safety', 'has-attr-' + attr, node=node,
                                info={'claim': 'object has attribute %s (AttributeError)' % attr})
                return self.read_field(st, base, ty.cls, attr, node)
            dc, mnode = self.classes.find_method(ty.cls, attr)
            if mnode is not None or self.classes.contract_for(ty.cls, attr) is not None:
                return Entity('method', attr, base)
            qa, val = (None, None)
            if self.classes.is_real(ty.cls):
                qa, val = self.src.find_class_attr(ty.cls, attr)
            if val is not None:
                try:
                    return self.const_value(ast.literal_eval(val))
                except Exception:
                    # a class-level object (compiled pattern, ...): resolved by contracts on its methods
                    return Entity('global', qa + '.' + attr)
            if ty.cls.startswith('list:') or ty.cls.startswith('dict:') or ty.cls.startswith('rxmatch:'):
                return Entity('method', attr, base)
            # attribute of a subclass: implicit downcast with an AttributeError obligation
            owners = []
            for q in self.classes.subclasses(ty.cls):
                dc, fty = self.classes.field(q, attr)
                if dc is not None and dc not in owners:
                    owners.append(dc)
            if len(owners) > 1:
                # several unrelated subclasses declare the attribute: the one the object can be here
                feas = [o for o in owners if self.spec_depth > 0 or self.feasible(st, self.isinstance_term(st, base, o), timeout_ms=2000)]
                if len(feas) == 1:
                    owners = feas
            if len(owners) == 1:
                self.oblige(st, self.isinstance_term(st, base, owners[0]), 'safety', 'has-attr-' + attr, node=node,
                            info={'claim': 'object is a %s, which has attribute %s (AttributeError)' % (owners[0], attr)})
                return self.read_field(st, SV(TRef(owners[0]), base.t), owners[0], attr, node)
            sub_methods = [q for q in self.classes.subclasses(ty.cls)
                           if self.classes.find_method(q, attr)[1] is not None or (q + '.' + attr) in api.REGISTRY]
            if sub_methods:
                tops = [q for q in sub_methods if not any(q != o and self.classes.is_subclass(q, o) for o in sub_methods)]
                if len(tops) == 1:
                    self.oblige(st, self.isinstance_term(st, base, tops[0]), 'safety', 'has-method-' + attr, node=node,
                                info={'claim': 'object is a %s, which has method %s (AttributeError)' % (tops[0], attr)})
                    return Entity('method', attr, SV(TRef(tops[0]), base.t))
            raise OutsideSubset('no field or method %s on %s' % (attr, ty.cls))
        if isinstance(ty, TUnion):
            nb = self.narrow_union(st, base, node, 'attribute ' + attr,
                                   lambda t: isinstance(t, TRef) and self.has_attr(t.cls, attr))
            return self.getattr_value(st, nb, attr, node)
        if ty == TStr or isinstance(ty, (TSeq, TMap, TTuple)) or isinstance(ty, TOpaque):
            return Entity('method', attr, base)
        raise OutsideSubset('attribute %s on %s' % (attr, ty))

    def has_attr(self, cls, attr):
        if self.classes.field(cls, attr)[0] is not None:
            return True
        if self.classes.find_method(cls, attr)[1] is not None or self.classes.contract_for(cls, attr) is not None:
            return True
        return False

    def narrow_union(self, st, v, node, what, pred):
        """The unique FEASIBLE alternative of a union value that satisfies pred, with a safety
        obligation that the value really is of that alternative."""
        ty = v.ty
        cands = [(tag, t) for tag, t in ty.alts if t != TNone and pred(t)]
        if len(cands) > 1:
            feas = []
            for tag, t in cands:
                if self.spec_depth > 0 or self.feasible(st, ty.is_tag(tag, v.t), timeout_ms=4000):
                    feas.append((tag, t))
            if len(feas) >= 1:
                cands = feas
        if len(cands) != 1:
            raise OutsideSubset('%s on a union value with %d fitting alternatives' % (what, len(cands)))
        tag, t = cands[0]
        self.oblige(st, ty.is_tag(tag, v.t), 'safety', 'kind-for-' + what.split()[0], node=node,
                    info={'claim': 'value has the kind needed for %s (AttributeError / TypeError)' % what})
        return unbox(t, ty.get(tag, v.t))

    def entity_attr(self, st, ent, attr, node):
        if ent.kind == 'module':
            m = self.src.module(ent.data)
            if attr in m.classes:
                return Entity('class', m.name + '.' + attr)
            if attr in m.functions:
                return Entity('func', m.name + '.' + attr)
            if attr in m.imports:
                return self.entity_for_dotted(m, attr)
            if attr in m.globals:
                return self.module_constant(m, attr)
            # submodule
            try:
                sub = ent.data + '.' + attr if ent.data != '__init__' else attr
                self.src.module(sub)
                return Entity('module', sub)
            except KeyError:
                raise OutsideSubset('module attribute %s.%s' % (ent.data, attr))
        if ent.kind == 'ext':
            return Entity('ext', ent.data + '.' + attr)
        if ent.kind == 'class':
            return Entity('classattr', (ent.data, attr))
        if ent.kind == 'builtin' and ent.data == 'dict' and attr == '__init__':
            return Entity('classattr', ('builtin:dict', '__init__'))
        if ent.kind == 'global':
            return Entity('globalattr', (ent.data, attr))
        raise OutsideSubset('attribute %s of %s' % (attr, ent))

    def eval_Subscript(self, st, e):
        out = []
        sl = e.slice
        if isinstance(sl, ast.Slice):
            parts = [sl.lower, sl.upper]
            if sl.step is not None:
                raise OutsideSubset('slice step')
            exprs = [e.value] + [p for p in parts if p is not None]
            for s, vals in self.eval_many(st, exprs):
                if not normal(s):
                    out.append((s, None))
                    continue
                base = vals[0]
                it = iter(vals[1:])
                lo = next(it) if sl.lower is not None else None
                hi = next(it) if sl.upper is not None else None
                out.append((s, self.do_slice(s, base, lo, hi, e)))
            return out
        for s, (base, idx) in self.eval_many(st, [e.value, sl]):
            if not normal(s):
                out.append((s, None))
                continue
            out.extend(self.do_index(s, base, idx, e))
        return out

    def int_term(self, st, v, node, what):
        if v is None:
            return None
        if v.ty == TInt:
            return v.t
        if v.ty == TBool:
            return coerce(v, TInt).t
        self.oblige(st, False, 'type', what, node=node, info={'claim': '%s is an int' % what})
        return fresh(TInt).t

    def do_slice(self, st, base, lo, hi, node):
        base = self.unwrap_opt(st, self.need_value(base), node, 'slice')
        lo_t = self.int_term(st, lo, node, 'slice-bound')
        hi_t = self.int_term(st, hi, node, 'slice-bound')
        if isinstance(base.ty, TUnion):
            base = self.narrow_union(st, base, node, 'slice', lambda t: isinstance(t, TSeq) or t == TStr)
        if base.ty == TStr or isinstance(base.ty, TSeq):
            if isinstance(base.ty, TSeq) and base.ty.elem is TBottom:
                return base
            return SV(base.ty, strops.slice_(base.t, lo_t, hi_t))
        if isinstance(base.ty, TTuple):
            if all(t is None or z3.is_int_value(t) for t in (lo_t, hi_t)):
                a = lo_t.as_long() if lo_t is not None else None
                b = hi_t.as_long() if hi_t is not None else None
                items = base.t[a:b]
                return SV(TTuple([i.ty for i in items]), tuple(items))
        if isinstance(base.ty, TRef) and base.ty.cls.startswith('list:'):
            items = self.read_field(st, base, base.ty.cls, 'items')
            return SV(items.ty, strops.slice_(items.t, lo_t, hi_t))
        raise OutsideSubset('slice of ' + str(base.ty))

    def do_index(self, st, base, idx, node):
        strops.RAW_SYMBOLIC_INDEX[0] = bool(self.in_contract or self.spec_depth > 0)
        try:
            return self.do_index_(st, base, idx, node)
        finally:
            strops.RAW_SYMBOLIC_INDEX[0] = False

    def do_index_(self, st, base, idx, node):
        base = self.unwrap_opt(st, self.need_value(base), node, 'subscript')
        idx = self.need_value(idx)
        if isinstance(base.ty, TUnion):
            want_map = idx.ty == TStr or (isinstance(idx.ty, TOpt) and idx.ty.inner == TStr)
            base = self.narrow_union(st, base, node, 'subscript',
                                     (lambda t: isinstance(t, TMap)) if want_map else
                                     (lambda t: isinstance(t, (TSeq, TTuple)) or t == TStr))
        ty = base.ty
        if ty == TStr:
            i = self.int_term(st, idx, node, 'index')
            self.oblige(st, strops.index_ok(i, z3.Length(base.t)), 'safety', 'str-index', node=node,
                        info={'claim': 'string index in range (IndexError)'})
            return [(st, SV(TStr, strops.str_at(base.t, i)))]
        if isinstance(ty, TSeq):
            i = self.int_term(st, idx, node, 'index')
            if ty.elem is TBottom:
                self.oblige(st, False, 'safety', 'seq-index', node=node,
                            info={'claim': 'list index in range (IndexError)'})
                raise OutsideSubset('index into empty literal')
            self.oblige(st, strops.index_ok(i, z3.Length(base.t)), 'safety', 'seq-index', node=node,
                        info={'claim': 'list index in range (IndexError)'})
            v = unbox(ty.elem, strops.seq_nth(base.t, i, ty.elem))
            self.assume_ref_closed(st, v)
            return [(st, v)]
        if isinstance(ty, TTuple):
            i = self.int_term(st, idx, node, 'index')
            i = z3.simplify(i)
            if z3.is_int_value(i):
                n = i.as_long()
                if -len(base.t) <= n < len(base.t):
                    return [(st, base.t[n])]
                self.oblige(st, False, 'safety', 'tuple-index', node=node,
                            info={'claim': 'tuple index in range (IndexError)'})
                raise OutsideSubset('tuple index out of range')
            raise OutsideSubset('symbolic tuple index')
        if isinstance(ty, TMap):
            if ty.k is TBottom:
                self.oblige(st, False, 'safety', 'dict-key', node=node,
                            info={'claim': 'key present (KeyError)'})
                raise OutsideSubset('lookup in empty literal dict')
            return self.map_lookup(st, base, idx, node)
        if isinstance(ty, TRef) and ty.cls.startswith('dict:'):
            items = self.read_field(st, base, ty.cls, 'items')
            return self.map_lookup(st, items, idx, node)
        if isinstance(ty, TRef) and ty.cls.startswith('list:'):
            items = self.read_field(st, base, ty.cls, 'items')
            return self.do_index(st, items, idx, node)
        if isinstance(ty, TRef) and self.dict_place(base) is not None:
            return self.map_lookup(st, self.read_place(st, self.dict_place(base)), idx, node)
        if isinstance(ty, TRef):
            return self.call_method(st, base, '__getitem__', [idx], {}, node)
        raise OutsideSubset('subscript of ' + str(ty))

    def map_lookup(self, st, m, key, node):
        """m[key]: KeyError when absent.  Inside try/except KeyError the
        exception path is a real fork; elsewhere it is a safety obligation."""
        key = self.map_key(st, m, key, node)
        has = self.map_has(m, key)
        if self.catches(st, 'builtin:KeyError'):
            outs = []
            a = st.copy()
            a.assume(has)
            if self.feasible(a):
                v = self.map_get(m, key)
                self.assume_ref_closed(a, v)
                outs.append((a, v))
            b = st.copy()
            b.assume(z3.Not(has))
            if self.feasible(b):
                self.raise_builtin(b, 'builtin:KeyError', node)
                outs.append((b, None))
            return outs
        self.oblige(st, has, 'safety', 'dict-key', node=node,
                    info={'claim': 'key present in dict (KeyError)'})
        v = self.map_get(m, key)
        self.assume_ref_closed(st, v)
        return [(st, v)]

    def eval_Lambda(self, st, e):
        return [(st, Entity('lambda', e))]
