"""Executor = expression + statement + call + contract mixins, and the
per-function verification-condition generator."""
import ast

import z3

from . import api
from .classes import Classes
from .extract import Source
from .state import ExcInfo, Obligation, Place, State
from .symex import Entity, ExprMixin, normal
from .symex_call import CallMixin
from .symex_contract import ContractMixin, parse_expr
from .symex_stmt import StmtMixin
from .types import TBool, TInt, TNone, TOpt, TRef, TSeq, TStr, TTuple, parse_type
from .values import NONE, SV, OutsideSubset, TypeMismatch, box, coerce, fresh, named, unbox


class FunctionReport:
    def __init__(self, qualname):
        self.qualname = qualname
        self.src = None
        self.obligations = []
        self.status = 'pending'      # generated | outside-subset | missing
        self.reason = None
        self.paths = 0
        self.inlined = set()
        self.used_contracts = set()
        self.undeclared_loops = []
        self.canary = None


class Executor(ExprMixin, StmtMixin, CallMixin, ContractMixin):
    def __init__(self, source=None):
        self.src = source or Source()
        self.classes = Classes(self.src)
        self.feas_timeout_ms = 300
        self.max_paths = 400
        self._spec_asts = {}
        self.reset()

    def reset(self):
        self.obls = []
        self.fn_name = None
        self.fn = None
        self.cur_module = None
        self.contract = None
        self.spec_depth = 0
        self.spec_env = None
        self.in_contract = False
        self.old_state = None
        self.pre_state = None
        self.entry_env = None
        self.extra_names = {}
        self.try_stack = []
        self.loop_ordinals = {}
        self.frame = None
        self.frame_carries = None
        self.inline_depth = 0
        self.rec_depth = 0
        self.prim_depth = 0
        self._unfolded = set()
        self.inlined = set()
        self.used_contracts = set()
        self.undeclared_loops = []
        self.feas_checks = 0
        self.base_state = State()
        self.cur_line = None
        self.cur_state = None
        self.contract_env = None
        self.heap_reads = None
        self.exists_witness = None
        self.extra_inst_terms = []
        self._spec_deps = {}
        self.asserts_seen = set()
        self.initial_arrays = {}
        self.stmt_ordinals = {}

    # override: no forking inside contract / spec expressions
    def eval_BoolOp(self, st, e):
        if not (self.in_contract or self.spec_depth > 0):
            return ExprMixin.eval_BoolOp(self, st, e)
        out = []
        for s2, vals in self.eval_many(st, e.values):
            if not normal(s2):
                out.append((s2, None))
                continue
            if all(isinstance(v, SV) and v.ty == TBool for v in vals):
                terms = [v.t for v in vals]
                out.append((s2, SV(TBool, z3.And(terms) if isinstance(e.op, ast.And) else z3.Or(terms))))
                continue
            from .values import merge
            acc = vals[-1]
            for v in reversed(vals[:-1]):
                t = self.truthy(s2, v)
                acc = merge(t, acc, v, self.classes) if isinstance(e.op, ast.And) else merge(t, v, acc, self.classes)
            out.append((s2, acc))
        return out

    def eval_IfExp(self, st, e):
        if not (self.in_contract or self.spec_depth > 0):
            return ExprMixin.eval_IfExp(self, st, e)
        from .values import merge
        out = []
        for s2, (c, a, b) in self.eval_many(st, [e.test, e.body, e.orelse]):
            if not normal(s2):
                out.append((s2, None))
                continue
            out.append((s2, merge(self.truthy(s2, c), self.need_value(a), self.need_value(b), self.classes)))
        return out

    # ------------------------------------------------------------------
    def number_loops(self, fnode):
        ords = {}
        n = 0
        for node in ast.walk(fnode):
            pass
        # pre-order, source order

        def visit(stmts):
            nonlocal n
            for s in stmts:
                if isinstance(s, (ast.For, ast.While)):
                    ords[id(s)] = n
                    n += 1
                for field in ('body', 'orelse', 'finalbody'):
                    sub = getattr(s, field, None)
                    if sub:
                        visit(sub)
                if isinstance(s, ast.Try):
                    for h in s.handlers:
                        visit(h.body)
        visit(fnode.body)
        return ords

    def number_stmts(self, fnode):
        """Ordinal of each statement among the statements of its kind (source order)."""
        counts = {}
        ords = {}

        def visit(stmts):
            for s in stmts:
                k = type(s).__name__
                ords[id(s)] = counts.get(k, 0)
                counts[k] = counts.get(k, 0) + 1
                for field in ('body', 'orelse', 'finalbody'):
                    sub = getattr(s, field, None)
                    if sub:
                        visit(sub)
                if isinstance(s, ast.Try):
                    for h in s.handlers:
                        visit(h.body)
        visit(fnode.body)
        return ords

    def initial_state(self, c, fs):
        st = State()
        st.alloc0 = z3.Int('alloc0')
        st.alloc = st.alloc0
        st.assume(st.alloc0 >= 0)
        fnode = fs.node
        params = [a.arg for a in fnode.args.args]
        if fnode.args.vararg is not None:
            params.append(fnode.args.vararg.arg)
        env = {}
        for p in params:
            if p == 'self' and 'self' not in c.params:
                ty = TRef(c.self_type or fs.cls)
            elif p in c.params:
                ty = self.param_type(c, p)
            else:
                raise OutsideSubset('contract of %s declares no type for parameter %s' % (c.qualname, p))
            v = named(ty, p)
            env[p] = v
        st.env = env
        for v in env.values():
            self.assume_type_facts(st, v)
        if 'self' in env and fs.cls is not None and isinstance(env['self'].ty, TRef):
            # this body runs only for instances whose class does not override the method
            mname = fnode.name
            cls = env['self'].ty.cls
            if self.classes.is_real(cls):
                runs = [q for q in self.classes.subclasses(cls)
                        if self.classes.find_method(q, mname)[0] == fs.cls]
                tag = self.cls_of(env['self'].t)
                st.assume(z3.Or([tag == self.classes.cid(q) for q in runs]) if runs else z3.BoolVal(True))
        return st

    def generate(self, qualname, canary=False):
        """Generate the obligations of one function.  Returns a FunctionReport."""
        self.reset()
        rep = FunctionReport(qualname)
        c = api.REGISTRY.get(qualname)
        if c is None:
            rep.status = 'missing'
            rep.reason = 'no contract registered'
            return rep
        try:
            fs = self.src.func(qualname)
        except KeyError:
            rep.status = 'missing'
            rep.reason = 'function not found in the tree under test'
            return rep
        rep.src = fs
        self.fn = fs
        self.fn_name = qualname
        self.contract = c
        self.cur_module = self.src.module(fs.module)
        self.loop_ordinals = self.number_loops(fs.node)
        self.stmt_ordinals = self.number_stmts(fs.node)
        try:
            st = self.initial_state(c, fs)
            self.entry_env = dict(st.env)
            is_init = fs.node.name == '__init__'
            # class invariants of self (not for __init__), then requires
            if 'self' in st.env and not is_init:
                for cl in self.classes.invariants(st.env['self'].ty.cls):
                    st.assume(self.eval_contract_expr(st, cl.expr))
            # behavioural subtyping: an overriding method may not demand more than the method it
            # overrides (callers that dispatch dynamically only establish the overridden contract)
            base_c = None
            if fs.cls is not None:
                for q_ in self.classes.mro(fs.cls)[1:]:
                    base_c = api.REGISTRY.get(q_ + '.' + fs.node.name)
                    if base_c is not None:
                        break
            if base_c is not None and not is_init and set(base_c.params) == set(c.params):
                sb = st.copy()
                for cl in base_c.requires:
                    sb.assume(self.eval_contract_expr(sb, cl.expr))
                have = {cl.expr for cl in base_c.requires}
                for cl in c.requires:
                    if cl.expr not in have:
                        self.oblige(sb.copy(), self.eval_contract_expr(sb, cl.expr), 'subtype', 'pre:' + cl.label,
                                    carries=cl.carries, node=fs.node,
                                    info={'claim': 'precondition not stronger than that of the overridden %s: %s'
                                          % (base_c.qualname, cl.expr)})
            for cl in c.requires:
                st.assume(self.eval_contract_expr(st, cl.expr))
            if not self.feasible(st):
                raise OutsideSubset('precondition of %s is unsatisfiable (vacuous contract)' % qualname)
            self.pre_state = st.copy()
            self.old_state = self.pre_state
            self.base_state = st.copy()
            ghost_todo = list(getattr(c, 'ghost_entry', ()))
            for ex_ in c.inst:
                v = self.eval_contract_expr(st, ex_, None, self.pre_state, want_bool=False)
                self.extra_inst_terms.append(v.t)
            # frame
            self.frame = []
            for ref, field, guard in self.eval_locations(st, c.modifies, st.env):
                if isinstance(guard, str) and guard == 'NEW':
                    continue          # objects allocated by the call are writable anyway
                if isinstance(guard, str) and guard == 'ALL':
                    self.frame.append(('ALL', field, ref.ty.cls))
                else:
                    self.frame.append((ref.t, field))
            self.frame_carries = getattr(c, 'frame_carries', None)
            if not is_init and not c.modifies and 'self' in st.env and isinstance(st.env['self'], SV) \
                    and isinstance(st.env['self'].ty, TRef):
                # a method whose contract lists NO writable location: an attribute of `self` that the
                # class model does not even declare (a cache, a counter, ...) being assigned is a write
                # outside the frame whatever else the body does (syntactic; reachability not examined)
                cls_ = st.env['self'].ty.cls
                for n_ in ast.walk(fs.node):
                    tg_ = (n_.targets if isinstance(n_, ast.Assign) else [n_.target] if isinstance(n_, (ast.AugAssign, ast.AnnAssign))
                           else n_.targets if isinstance(n_, ast.Delete) else [])
                    flat_ = []
                    for t_ in tg_:
                        flat_.extend(t_.elts if isinstance(t_, (ast.Tuple, ast.List)) else [t_])
                    for t_ in flat_:
                        while isinstance(t_, ast.Subscript):
                            t_ = t_.value
                        if (isinstance(t_, ast.Attribute) and isinstance(t_.value, ast.Name) and t_.value.id == 'self'
                                and self.classes.field(cls_, t_.attr)[0] is None
                                and not any(self.classes.field(q_, t_.attr)[0] for q_ in self.classes.subclasses(cls_))):
                            self.oblige(st.copy(), z3.BoolVal(False), 'frame', 'new-attribute:' + t_.attr, node=n_,
                                        info={'claim': 'the contract of %s lists no writable location, yet the body assigns '
                                                       'self.%s (an attribute the class model does not declare)' % (qualname, t_.attr)})
            if is_init:
                st.init_assigned = set()
                self.frame.append((st.env['self'].t, None))
                # a new object's attribute dictionary is empty; class attributes show through
                cls_ = st.env['self'].ty.cls
                self.class_attr_defaults(st, st.env['self'], cls_)
                for q_ in self.classes.mro(cls_):
                    m_ = api.MODELS.get(q_)
                    for f_, dv_ in (m_.defaults.items() if m_ is not None else ()):
                        _, ft_ = self.classes.field(q_, f_)
                        a_ = self.heap_array(st, (q_, f_), ft_)
                        st.heap[(q_, f_)] = z3.Store(a_, st.env['self'].t, box(coerce(
                            self.const_value(ast.literal_eval(dv_)), ft_, self.classes)))
                self.pre_state = st.copy()
                self.old_state = self.pre_state
                dc_, fty_ = self.classes.field(cls_, '_dict')
                if dc_ is not None:
                    from .values import empty_map
                    arr_ = self.heap_array(st, (dc_, '_dict'), fty_)
                    st.heap[(dc_, '_dict')] = z3.Store(arr_, st.env['self'].t, empty_map(fty_))
                    st.init_assigned.add('_dict')
                    self.pre_state = st.copy()
                    self.old_state = self.pre_state
            for gf_, gv_ in ghost_todo:
                # ghost code: `self.<ghost field> = <literal>` before the first statement of the body
                cls_g = st.env['self'].ty.cls
                dc_g, ft_g = self.classes.field(cls_g, gf_)
                m_g = api.MODELS.get(dc_g)
                if m_g is None or gf_ not in m_g.ghost_fields:
                    raise OutsideSubset('ghost_entry target %s is not a ghost field' % gf_)
                self.write_field(st, st.env['self'], cls_g, gf_, self.const_value(ast.literal_eval(gv_)), fs.node)
            if canary:
                ends = self.exec_block(st, fs.node.body)
                self.finish_canary(rep, ends)
            else:
                ends = self.exec_block(st, fs.node.body)
                rep.paths = len(ends)
                # vacuity canary from the same run: `ensures False` on an exit must be refutable,
                # i.e. the path condition of at least one exit is satisfiable
                rep.canary = [Obligation(self.fn_name, 'canary', e.flow, e.pc + e.facts, z3.BoolVal(False), e.trail)
                              for e in ends]
                for e in ends:
                    self.check_exit(e, c, fs, is_init)
            missing = [a for a in c.asserts if id(a) not in self.asserts_seen]
            if missing and not canary:
                raise OutsideSubset('ghost assertion target not found in the body: ' + ', '.join(a.label for a in missing))
            rep.status = 'generated'
        except OutsideSubset as ex:
            rep.status = 'outside-subset'
            rep.reason = '%s (line %s)' % (ex, self.cur_line)
        rep.obligations = list(self.obls)
        rep.inlined = set(self.inlined)
        rep.used_contracts = set(self.used_contracts)
        rep.undeclared_loops = list(self.undeclared_loops)
        return rep

    def finish_canary(self, rep, ends):
        """`ensures False` on every exit must be refutable: the conjunction of some
        path condition has to be satisfiable."""
        self.obls = []
        for e in ends:
            ob = Obligation(self.fn_name, 'canary', e.flow, e.pc + e.facts, z3.BoolVal(False), e.trail)
            self.obls.append(ob)

    def set_witness(self, st, wit):
        if not wit:
            self.exists_witness = None
            return
        self.exists_witness = {}
        for var, expr in wit.items():
            try:
                self.exists_witness[var] = self.eval_contract_expr(st, expr, None, self.pre_state, want_bool=False)
            except OutsideSubset:
                self.exists_witness = None
                return

    def result_value(self, st, c, node):
        rty = parse_type(c.returns)
        r = st.ret if st.flow == 'return' else NONE
        if isinstance(r, Place):
            r = self.read_place(st, r)
        try:
            return self.coerce_checked(st, self.need_value(r), rty, node, 'result')
        except TypeMismatch as ex:
            self.oblige(st, False, 'type', 'result', node=node,
                        info={'claim': 'result has the declared type %s (got %s)' % (rty, r.ty)})
            return fresh(rty)

    def check_exit(self, st, c, fs, is_init):
        node = fs.node
        for h in c.hints:
            try:
                self.eval_contract_expr(st, h, None, self.pre_state, want_bool=False)
            except OutsideSubset:
                pass          # a hint may mention locals that do not exist on this path
        if st.flow in ('normal', 'return'):
            res = self.result_value(st, c, node)
            st.flow = 'normal'
            extra = {'result': res}
            env = dict(self.entry_env)
            env.update(extra)
            # a deterministic raises clause must not have applied
            for r in c.raises:
                if r.when is not None:
                    self.set_witness(st, r.witness)
                    t = self.eval_contract_expr(self.pre_state, r.when, None, None, use_env=self.entry_env, sink=st)
                    self.exists_witness = None
                    self.oblige(st, z3.Not(t), 'post', 'no-raise:' + r.label, carries=r.carries, node=node,
                                info={'claim': 'returns normally only if not (%s)' % r.when})
            for cl in list(c.ensures) + list(c.static_ensures):
                self.set_witness(st, cl.witness)
                t = self.eval_contract_expr(st, cl.expr, None, self.pre_state, use_env=env)
                self.exists_witness = None
                self.oblige(st, t, 'post', cl.label, carries=cl.carries, node=node,
                            info={'claim': 'postcondition: ' + cl.expr})
            if 'self' in self.entry_env:
                for cl in self.classes.invariants(self.entry_env['self'].ty.cls):
                    t = self.eval_contract_expr(st, cl.expr, None, self.pre_state, use_env=env)
                    self.oblige(st, t, 'post', 'invariant:' + cl.label, carries=cl.carries, node=node,
                                info={'claim': 'class invariant re-established: ' + cl.expr})
            if is_init and st.init_assigned is not None:
                cls = self.entry_env['self'].ty.cls
                for f, (dc, fty) in self.classes.all_fields(cls).items():
                    if f in st.init_assigned:
                        continue
                    if self.classes.is_real(cls) and self.src.find_class_attr(cls, f)[1] is not None:
                        continue
                    m = api.MODELS.get(dc)
                    if m is not None and f in getattr(m, 'ghost_fields', ()):
                        continue
                    if m is not None and f in getattr(m, 'late_fields', ()):
                        continue
                    self.oblige(st, False, 'safety', 'init-field-' + f, node=node,
                                info={'claim': '__init__ assigns field %s (AttributeError later)' % f})
        elif st.flow == 'raise':
            exc = st.exc
            cands = [r for r in c.raises
                     if self.classes.is_subclass(exc.cls, self.classes.canon(r.cls.rstrip('+')))]
            if cands and not exc.opaque_cls:
                # an exception the body raises itself is judged by the most specific clauses that
                # cover its class (a catch-all `Exception+` clause for opaque callees must not
                # excuse a ConfigurationError raised under the wrong condition)
                def cc(r):
                    return self.classes.canon(r.cls.rstrip('+'))
                cands = [r for r in cands
                         if not any(cc(o) != cc(r) and self.classes.is_subclass(cc(o), cc(r)) for o in cands)]
            if not cands:
                self.oblige(st, False, 'exc-escape', exc.cls.split('.')[-1].replace('builtin:', ''), node=node,
                            carries=getattr(c, 'escape_carries', None),
                            info={'claim': 'no %s escapes %s (not in its raises clause)' % (exc.cls, c.qualname)})
                return
            whens = []
            env = dict(self.entry_env)
            env['exc'] = exc.ref
            for r in cands:
                if r.when is None:
                    whens = None
                    break
                whens.append(self.eval_contract_expr(self.pre_state, r.when, None, None, use_env=self.entry_env, sink=st))
            if whens is not None:
                lab = 'raises-only-when:' + cands[0].label
                self.oblige(st, z3.Or(whens), 'exc-post', lab, carries=cands[0].carries, node=node,
                            info={'claim': '%s is raised only when: %s' % (exc.cls.split('.')[-1], ' or '.join(r.when for r in cands))})
            earlier = []
            for r in c.raises:
                # clauses are prioritised: a clause fires only if no earlier deterministic clause does
                g = None
                if r.when is not None:
                    g = self.eval_contract_expr(self.pre_state, r.when, None, None, use_env=self.entry_env, sink=st)
                if r not in cands:
                    if g is not None:
                        earlier.append(g)
                    continue
                guard = z3.And([g if g is not None else z3.BoolVal(True)] + [z3.Not(x) for x in earlier])
                if g is not None:
                    earlier.append(g)
                for cl in r.then:
                    t = self.eval_contract_expr(st, cl.expr, None, self.pre_state, use_env=env)
                    self.oblige(st, z3.Implies(guard, t), 'exc-post', r.label + ':' + cl.label,
                                carries=cl.carries or r.carries, node=node,
                                info={'claim': 'when %s is raised: %s' % (r.cls, cl.expr)})
        else:
            raise OutsideSubset('break/continue at function level')
