"""Definitional encodings of Python str / sequence operations over z3 terms.

Python semantics assumed (and cross-checked against CPython in selftest.py):
slicing clamps, negative indices count from the end, find() returns -1,
startswith(p, i) is s[i:].startswith(p) and is False for i > len(s).
"""
import z3

_ufuns = {}


def ufun(name, *sorts):
    key = (name,) + tuple(str(s) for s in sorts)
    if key not in _ufuns:
        _ufuns[key] = z3.Function(name, *sorts)
    return _ufuns[key]


def _is_int_lit(t):
    return z3.is_int_value(t)


def norm_index(i, n):
    """Python slice-bound normalisation of index term i for length n."""
    if _is_int_lit(i):
        v = i.as_long()
        if v >= 0:
            return z3.If(n < v, n, z3.IntVal(v)) if v > 0 else z3.IntVal(0)
        return z3.If(n + v < 0, z3.IntVal(0), n + v)
    return z3.If(i < 0, z3.If(i + n < 0, z3.IntVal(0), i + n), z3.If(i > n, n, i))


def slice_(s, lo, hi):
    """s[lo:hi]; lo / hi are z3 Int terms or None."""
    n = z3.Length(s)
    a = z3.IntVal(0) if lo is None else norm_index(lo, n)
    b = n if hi is None else norm_index(hi, n)
    # z3 extract(s, off, len): '' when len <= 0 or off out of range; clamps len
    return z3.simplify(z3.SubSeq(s, a, b - a)) if False else z3.SubSeq(s, a, b - a)


def index_ok(i, n):
    """-n <= i < n"""
    return z3.And(i >= -n, i < n)


RAW_SYMBOLIC_INDEX = [False]     # set while evaluating contract / specification expressions


def index_norm(i, n):
    if RAW_SYMBOLIC_INDEX[0] and not _is_int_lit(i):
        return i        # specifications index with non-negative symbolic indices only
    if _is_int_lit(i):
        v = i.as_long()
        return z3.IntVal(v) if v >= 0 else n + v
    return z3.If(i < 0, i + n, i)


def str_at(s, i):
    """s[i] for a string (a length-1 string); caller proves index_ok."""
    return z3.SubString(s, index_norm(i, z3.Length(s)), 1)


def seq_nth(s, i, ety=None):
    from .types import snth
    return snth(ety, s, index_norm(i, z3.Length(s))) if ety is not None else s[index_norm(i, z3.Length(s))]


def find(s, sub, start=None):
    return z3.IndexOf(s, sub, z3.IntVal(0) if start is None else start)


def contains(s, sub):
    return z3.Contains(s, sub)


def startswith(s, p, start=None):
    if start is None:
        return z3.PrefixOf(p, s)
    n = z3.Length(s)
    st = z3.If(start < 0, z3.If(start + n < 0, z3.IntVal(0), start + n), start)
    return z3.And(st <= n, z3.PrefixOf(p, z3.SubString(s, st, n - st)))


def endswith(s, p):
    return z3.SuffixOf(p, s)


def lower(s):
    return ufun('py_lower', z3.StringSort(), z3.StringSort())(s)


def upper(s):
    return ufun('py_upper', z3.StringSort(), z3.StringSort())(s)


def strip(s):
    return ufun('py_strip', z3.StringSort(), z3.StringSort())(s)


def rstrip(s):
    return ufun('py_rstrip', z3.StringSort(), z3.StringSort())(s)


def lstrip(s):
    return ufun('py_lstrip', z3.StringSort(), z3.StringSort())(s)


WS_CODEPOINTS = [9, 10, 11, 12, 13, 28, 29, 30, 31, 32, 133, 160, 5760, 8192, 8193,
                 8194, 8195, 8196, 8197, 8198, 8199, 8200, 8201, 8202, 8232, 8233,
                 8239, 8287, 12288]


def is_ws_char(c):
    """c: a length-1 string term; the 29 code points with str.isspace()."""
    code = z3.StrToCode(c)
    return z3.Or([code == z3.IntVal(v) for v in WS_CODEPOINTS])


def ws_re():
    return z3.Union(*[z3.Re(z3.StringVal(chr(v))) for v in WS_CODEPOINTS])
