"""Binding obligations: finite facts about LIVE module-level objects of the tree
under test (constructor arguments of stock instances, tables), decided exactly
by evaluation.  They connect class-level contracts (proved for every instance)
to the particular instances the registry hands out.

usage: /venv/bin/python -m pyvc.bindcheck <spec-module> [ids...]  -> JSON
"""
import importlib
import json
import os
import sys


def main(argv):
    root = os.environ.get('VERIF_REPO', '/repo')
    src = os.path.join(root, 'src')
    sys.path.insert(0, src)
    sys.path.insert(1, os.path.dirname(os.path.dirname(os.path.abspath(__file__))))
    import ZConfig
    assert ZConfig.__file__.startswith(src)
    specmod = importlib.import_module(argv[1])
    want = set(argv[2:])
    out = []
    for b in specmod.BINDINGS:
        if want and b['id'] not in want and b.get('group') not in want:
            continue
        env = {'ZConfig': ZConfig, 'importlib': importlib}
        for m in b.get('imports', ()):
            env[m.split('.')[-1]] = importlib.import_module(m)
        e = {'id': b['id'], 'expr': b['expr'], 'carries': b.get('carries'), 'group': b.get('group')}
        try:
            val = eval(b['expr'], env)
            if 'expect' in b:
                e['status'] = 'discharged' if val == b['expect'] and type(val) == type(b['expect']) else 'refuted'
                e['expected'] = repr(b['expect'])
            else:
                e['status'] = 'discharged' if val is True else 'refuted'
                e['expected'] = 'True'
            e['observed'] = repr(val)[:300]
        except Exception as ex:
            e['status'] = 'refuted'
            e['observed'] = 'raises %s: %s' % (type(ex).__name__, str(ex)[:200])
        out.append(e)
    json.dump(out, sys.stdout, indent=1)


if __name__ == '__main__':
    main(sys.argv)
